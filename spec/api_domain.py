"""Argument domains of the 72 isal_ entry points, written from the public headers
(include/*.h: parameter documentation, @retval) and FIPS.md -- deliberately NOT derived from
the wrapper sources, so that a check deleted/changed in a wrapper disagrees with this table.

Per entry point:  src      translation unit holding the wrapper
                  internal the `_`-prefixed function that does the work (stubbed in the harness)
                  fips     'approved' | 'nonapproved' | 'none'
                  args     ordered {name: rule}
rules:  P(code, size [, when])   pointer that must be non-NULL (when the C condition `when` over the
                                 scalar arguments holds; always if omitted); `code` is the documented
                                 error for NULL; size = C expression for a valid object
        S([valid, code])         scalar; out of domain when !(valid)
        OUT(code,size)           like P, an output-only pointer that the isal_ form adds over the legacy form
"""
from collections import OrderedDict as OD

E = "ISAL_CRYPTO_ERR_"


def P(code, size, when=None, may=None):
    return {"kind": "ptr", "code": E + code, "size": size, "when": when, "extra_out": False, "may": may}


def OUT(code, size):
    d = P(code, size)
    d["extra_out"] = True
    return d


def S(valid=None, code=None):
    return {"kind": "scalar", "valid": valid, "code": (E + code) if code else None}


API = OD()
HEADERS = {}

# ------------------------------------------------------------------ AES-GCM
KD, CD = "sizeof(struct isal_gcm_key_data)", "sizeof(struct isal_gcm_context_data)"
TAGOK = "auth_tag_len == 16 || auth_tag_len == 12 || auth_tag_len == 8"
for ks in ("128", "256"):
    for d in ("enc", "dec"):
        for nt in ("", "_nt"):
            API["isal_aes_gcm_%s_%s%s" % (d, ks, nt)] = dict(src="aes/aes_gcm.c", fips="approved", internal="_aes_gcm_%s_%s%s" % (d, ks, nt), args=OD([
                ("key_data", P("NULL_EXP_KEY", KD)), ("context_data", P("NULL_CTX", CD)),
                ("out", P("NULL_DST", "64", "len != 0")), ("in", P("NULL_SRC", "64", "len != 0")),
                ("len", S("len <= ISAL_GCM_MAX_LEN", "CIPH_LEN")), ("iv", P("NULL_IV", "12")),
                ("aad", P("NULL_AAD", "32", "aad_len != 0")), ("aad_len", S()),
                ("auth_tag", P("NULL_AUTH", "16")), ("auth_tag_len", S(TAGOK, "AUTH_TAG_LEN"))]))
            API["isal_aes_gcm_%s_%s_update%s" % (d, ks, nt)] = dict(src="aes/aes_gcm.c", fips="approved", internal="_aes_gcm_%s_%s_update%s" % (d, ks, nt), args=OD([
                ("key_data", P("NULL_EXP_KEY", KD)), ("context_data", P("NULL_CTX", CD)),
                ("out", P("NULL_DST", "64", "len != 0")), ("in", P("NULL_SRC", "64", "len != 0")),
                ("len", S("len <= ISAL_GCM_MAX_LEN", "CIPH_LEN"))]))
        API["isal_aes_gcm_%s_%s_finalize" % (d, ks)] = dict(src="aes/aes_gcm.c", fips="approved", internal="_aes_gcm_%s_%s_finalize" % (d, ks), args=OD([
            ("key_data", P("NULL_EXP_KEY", KD)), ("context_data", P("NULL_CTX", CD)),
            ("auth_tag", P("NULL_AUTH", "16")), ("auth_tag_len", S(TAGOK, "AUTH_TAG_LEN"))]))
    API["isal_aes_gcm_init_%s" % ks] = dict(src="aes/aes_gcm.c", fips="approved", internal="_aes_gcm_init_%s" % ks, args=OD([
        ("key_data", P("NULL_EXP_KEY", KD)), ("context_data", P("NULL_CTX", CD)), ("iv", P("NULL_IV", "12")),
        ("aad", P("NULL_AAD", "32", "aad_len != 0")), ("aad_len", S())]))
    API["isal_aes_gcm_pre_%s" % ks] = dict(src="aes/aes_gcm.c", fips="approved", internal="_aes_gcm_pre_%s" % ks, args=OD([
        ("key", P("NULL_KEY", "32")), ("key_data", P("NULL_EXP_KEY", KD))]))
HEADERS["aes/aes_gcm.c"] = ["isal_crypto_api.h", "aes_gcm.h", "aes_gcm_internal.h"]

# ------------------------------------------------------------------ AES-CBC
for ks in ("128", "192", "256"):
    for d in ("enc", "dec"):
        API["isal_aes_cbc_%s_%s" % (d, ks)] = dict(src="aes/aes_cbc.c", fips="approved", internal="_aes_cbc_%s_%s" % (d, ks), args=OD([
            ("in", P("NULL_SRC", "64")), ("iv", P("NULL_IV", "16")), ("keys", P("NULL_EXP_KEY", "16*15")),
            ("out", P("NULL_DST", "64")), ("len_bytes", S("(len_bytes & 0xf) == 0", "CIPH_LEN"))]))
HEADERS["aes/aes_cbc.c"] = ["isal_crypto_api.h", "aes_cbc.h", "aes_cbc_internal.h"]

# ------------------------------------------------------------------ AES-XTS
for ks, kb, rounds in (("128", 16, 11), ("256", 32, 15)):
    for d in ("enc", "dec"):
        for ek in ("", "_expanded_key"):
            ksz = str(16 * rounds) if ek else str(kb)
            kcode = "NULL_EXP_KEY" if ek else "NULL_KEY"
            API["isal_aes_xts_%s_%s%s" % (d, ks, ek)] = dict(src="aes/aes_xts.c", fips="approved", internal="_XTS_AES_%s_%s%s" % (ks, d, ek),
                xts_keylen=int(ksz), args=OD([
                    ("k2", P(kcode, ksz)), ("k1", P(kcode, ksz)), ("initial_tweak", P("XTS_NULL_TWEAK", "16")),
                    ("len_bytes", S("len_bytes >= 16 && len_bytes <= (1 << 24)", "CIPH_LEN")),
                    ("in", P("NULL_SRC", "64")), ("out", P("NULL_DST", "64"))]))
HEADERS["aes/aes_xts.c"] = ["isal_crypto_api.h", "aes_xts.h", "aes_xts_internal.h"]

# ------------------------------------------------------------------ key expansion
for ks, kb, rounds in (("128", 16, 11), ("192", 24, 13), ("256", 32, 15)):
    API["isal_aes_keyexp_%s" % ks] = dict(src="aes/aes_keyexp.c", fips="approved", internal="_aes_keyexp_%s" % ks, args=OD([
        ("key", P("NULL_KEY", str(kb))), ("exp_key_enc", P("NULL_EXP_KEY", str(16 * rounds))), ("exp_key_dec", P("NULL_EXP_KEY", str(16 * rounds)))]))
HEADERS["aes/aes_keyexp.c"] = ["isal_crypto_api.h", "aes_keyexp.h", "aes_keyexp_internal.h"]

# ------------------------------------------------------------------ multi-buffer hashes
for alg, fips in (("sha1", "approved"), ("sha256", "approved"), ("sha512", "approved"), ("md5", "nonapproved"), ("sm3", "nonapproved")):
    U = alg.upper()
    src = "%s_mb/%s_mb.c" % (alg, alg)
    MGR, CTX = "sizeof(ISAL_%s_HASH_CTX_MGR)" % U, "sizeof(ISAL_%s_HASH_CTX)" % U
    API["isal_%s_ctx_mgr_init" % alg] = dict(src=src, fips=fips, internal="_%s_ctx_mgr_init" % alg, args=OD([("mgr", P("NULL_MGR", MGR))]))
    API["isal_%s_ctx_mgr_submit" % alg] = dict(src=src, fips=fips, internal="_%s_ctx_mgr_submit" % alg, hash_submit=True, args=OD([
        ("mgr", P("NULL_MGR", MGR)), ("ctx_in", P("NULL_CTX", CTX)), ("ctx_out", OUT("NULL_CTX", "sizeof(void *)")),
        # the headers do not say when a NULL buffer is acceptable; the sha/md5 wrappers refuse it for UPDATE/ENTIRE, sm3 for len != 0:
        # refusal is required where both readings agree, tolerated where either applies
        ("buffer", P("NULL_SRC", "64", "len != 0 && (flags == ISAL_HASH_UPDATE || flags == ISAL_HASH_ENTIRE)",
                     may="len != 0 || flags == ISAL_HASH_UPDATE || flags == ISAL_HASH_ENTIRE")), ("len", S()),
        ("flags", S())]))
    API["isal_%s_ctx_mgr_flush" % alg] = dict(src=src, fips=fips, internal="_%s_ctx_mgr_flush" % alg, hash_flush=True, args=OD([
        ("mgr", P("NULL_MGR", MGR)), ("ctx_out", OUT("NULL_CTX", "sizeof(void *)"))]))
    HEADERS[src] = ["isal_crypto_api.h", "%s_mb.h" % alg, "%s_mb_internal.h" % alg, "multi_buffer.h"]

# ------------------------------------------------------------------ multi-hash
for mh, dig in (("mh_sha1", "mh_sha1_digest"), ("mh_sha256", "mh_sha256_digest")):
    src = "%s/%s.c" % (mh, mh)
    CTX = "sizeof(struct isal_%s_ctx)" % mh
    API["isal_%s_init" % mh] = dict(src=src, fips="nonapproved", internal=None, args=OD([("ctx", P("NULL_CTX", CTX))]))
    API["isal_%s_update" % mh] = dict(src=src, fips="nonapproved", internal="_%s_update" % mh, ret_internal=True, args=OD([
        ("ctx", P("NULL_CTX", CTX)), ("buffer", P("NULL_SRC", "64")), ("len", S())]))
    API["isal_%s_finalize" % mh] = dict(src=src, fips="nonapproved", internal="_%s_finalize" % mh, ret_internal=True, args=OD([
        ("ctx", P("NULL_CTX", CTX)), (dig, P("NULL_AUTH", "32"))]))
    HEADERS[src] = ["isal_crypto_api.h", "%s.h" % mh, "%s_internal.h" % mh]
src = "mh_sha1_murmur3_x64_128/mh_sha1_murmur3_x64_128.c"
CTX = "sizeof(struct isal_mh_sha1_murmur3_x64_128_ctx)"
API["isal_mh_sha1_murmur3_x64_128_init"] = dict(src=src, fips="nonapproved", internal=None, args=OD([("ctx", P("NULL_CTX", CTX)), ("murmur_seed", S())]))
API["isal_mh_sha1_murmur3_x64_128_update"] = dict(src=src, fips="nonapproved", internal="_mh_sha1_murmur3_x64_128_update", ret_internal=True, args=OD([
    ("ctx", P("NULL_CTX", CTX)), ("buffer", P("NULL_SRC", "64")), ("len", S())]))
API["isal_mh_sha1_murmur3_x64_128_finalize"] = dict(src=src, fips="nonapproved", internal="_mh_sha1_murmur3_x64_128_finalize", ret_internal=True, args=OD([
    ("ctx", P("NULL_CTX", CTX)), ("mh_sha1_digest", P("NULL_AUTH", "20")), ("murmur3_x64_128_digest", P("NULL_AUTH", "16"))]))
HEADERS[src] = ["isal_crypto_api.h", "mh_sha1_murmur3_x64_128.h", "mh_sha1_murmur3_x64_128_internal.h"]

# ------------------------------------------------------------------ rolling hash
src = "rolling_hash/rolling_hash2.c"
ST = "sizeof(struct isal_rh_state2)"
API["isal_rolling_hash2_init"] = dict(src=src, fips="nonapproved", internal=None, assume="w != 0", args=OD([
    ("state", P("NULL_CTX", ST)), ("w", S("w <= 48", "WINDOW_SIZE"))]))
API["isal_rolling_hash2_reset"] = dict(src=src, fips="nonapproved", internal="_rolling_hash2_reset", stub_in_tu=True, args=OD([
    ("state", P("NULL_CTX", ST)), ("init_bytes", P("NULL_INIT_VAL", "48"))]))
API["isal_rolling_hash2_run"] = dict(src=src, fips="nonapproved", internal="_rolling_hash2_run", stub_in_tu=True, args=OD([
    ("state", P("NULL_CTX", ST)), ("buffer", P("NULL_SRC", "64")), ("max_len", S()), ("mask", S()), ("trigger", S()),
    ("offset", P("NULL_OFFSET", "4")), ("match", OUT("NULL_MATCH", "4"))]))
API["isal_rolling_hashx_mask_gen"] = dict(src=src, fips="nonapproved", internal="_rolling_hashx_mask_gen", args=OD([
    ("mean", S()), ("shift", S()), ("mask", OUT("NULL_MASK", "4"))]))
HEADERS[src] = ["isal_crypto_api.h", "rolling_hashx.h", "rolling_hashx_internal.h"]

# ------------------------------------------------------------------ misc (no argument domain)
API["isal_self_tests"] = dict(src="fips/self_tests.c", fips="none", internal=None, args=OD())
API["isal_crypto_get_version"] = dict(src="misc/version.c", fips="none", internal=None, args=OD())
API["isal_crypto_get_version_str"] = dict(src="misc/version.c", fips="none", internal=None, args=OD())

# legacy name -> isal_ name where the rule "isal_" + legacy does not apply
LEGACY_MAP = {}
for ks in ("128", "256"):
    for d in ("enc", "dec"):
        for ek in ("", "_expanded_key"):
            LEGACY_MAP["XTS_AES_%s_%s%s" % (ks, d, ek)] = "isal_aes_xts_%s_%s%s" % (d, ks, ek)
# legacy entry points that have no isal_ counterpart (listed so that they are reported, not silently skipped)
LEGACY_ONLY = ["mh_sha1_update_base", "mh_sha1_finalize_base", "mh_sha256_update_base", "mh_sha256_finalize_base",
               "mh_sha1_murmur3_x64_128_update_base", "mh_sha1_murmur3_x64_128_finalize_base", "aes_gcm_pre_128", "aes_gcm_pre_256",
               "aes_cbc_precomp"]
