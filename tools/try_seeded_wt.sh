#!/bin/bash
# try_seeded_wt.sh <seeded name> <check id>... : apply the seeded change in a scratch worktree of /repo (so that /repo itself stays
# untouched and other runs are not disturbed), run the checks against it (VERIF_REPO), remove the worktree
name=$1; shift
wt=/var/tmp/seedwt_$name
git -C /repo worktree remove --force $wt 2>/dev/null; rm -rf $wt
git -C /repo worktree add --detach $wt HEAD >/dev/null 2>&1 || exit 9
git -C $wt apply /verif/seeded/$name/patch.diff || { git -C /repo worktree remove --force $wt; exit 8; }
cd /verif
for c in "$@"; do
  out=$(VERIF_REPO=$wt VERIF_CACHE=/var/tmp/verif-cache-seeded VERIF_NOEVIDENCE=1 ./check $c 2>&1); rc=$?
  echo "== $name under $c: exit=$rc"; echo "$out" | grep -E "^VIOLATION|^  what|^INCONCLUSIVE|^OK" | cut -c1-300 | head -4
done
git -C /repo worktree remove --force $wt; rm -rf $wt
