#!/bin/bash
# verify_seeded.sh <name e.g. C01_A> : confirm a seeded change in a scratch worktree of /repo
# (demo passes unchanged; with the patch: suite passes, demo fails).  Results -> /var/tmp/seeded_verify/<name>.result
name=$1; src=${2:-/verif/seeded_pending/$name}
out=/var/tmp/seeded_verify; mkdir -p $out
wt=/var/tmp/vs_$name
log=$out/$name.log
exec >$log 2>&1
git -C /repo worktree remove --force $wt 2>/dev/null; rm -rf $wt
git -C /repo worktree add --detach $wt HEAD || exit 9
cd $wt
build="make -f Makefile.unx -j6 lib"
grep -qi '"build".*fips' $src/meta.json && build="make -f Makefile.unx -j6 FIPS_MODE=y lib"
echo "BUILD: $build"
$build >/dev/null 2>&1 || { echo RESULT build-failed-clean > $out/$name.result; exit 1; }
mkdir -p M && cp -r $src/. M/
( timeout 900 bash M/run_demo.sh ) ; d0=$?
echo "demo on unchanged: $d0"
git apply M/patch.diff || { echo "RESULT patch-does-not-apply" > $out/$name.result; cd /; git -C /repo worktree remove --force $wt; exit 1; }
rm -rf bin
$build >/dev/null 2>&1 || { echo "RESULT build-failed-patched" > $out/$name.result; cd /; git -C /repo worktree remove --force $wt; exit 1; }
( timeout 900 bash M/run_demo.sh ) ; d1=$?
echo "demo on patched: $d1"
rm -rf bin
make -f Makefile.unx -j6 check > check.log 2>&1; c=$?
n=$(grep -c "Completed run" check.log); fin=$(grep -c "Finished running check" check.log); fl=$(grep -ci "fail" check.log)
echo "suite: rc=$c completed=$n finished=$fin failwords=$fl"
echo "RESULT demo_clean=$d0 demo_patched=$d1 suite_rc=$c completed=$n finished=$fin failwords=$fl" > $out/$name.result
cd /; git -C /repo worktree remove --force $wt; rm -rf $wt
