HOOKS = {"guard": "ISAL_CRYPTO_VERIF", "enable": "no source hook is needed by the checks registered so far (they analyse the unhooked sources/objects); reserved: -DISAL_CRYPTO_VERIF",
         "baseline_off_cmd": "cd /repo && make -f Makefile.unx -j8 check", "source_commits": [], "add_only": True}
ENGINES = [
    {"name": "cbmc-c", "path": "lib/cbmcrun.py, lib/apicheck.py, lib/apigen.py, cbmc/", "serves_properties": ["C13", "C16"],
     "kind_free_text": "CBMC 6.11 bounded model checking of the real C translation units (goto-cc with the build's flags), generated harnesses, contract stubs, WITNESS twins, native replay of counterexamples"},
]
NOTES = "See DESIGN.md. Every check regenerates its encoding from /repo's working tree; exit 0 = held within the stated bounds, 1 = replay-confirmed VIOLATION, 3 = INCONCLUSIVE (never reported as success)."
CHECKS = {
 "C13": dict(engine="cbmc-c", design_ref="DESIGN.md 4/C13", technique="bounded model checking (CBMC) of the real API wrapper TUs built with -DFIPS_MODE; symbolic arguments, ghost self-test state machine",
    text="For every discovered isal_ entry point, CBMC decides for all argument values and all self-test states {not run, passed, failed} x first-run outcomes that approved entry points return ISAL_CRYPTO_ERR_SELF_TEST, reach no internal and leave every argument object unchanged once the tests failed, do no crypto before a pass, that non-approved ones always return FIPS_INVALID_ALGO, and that XTS refuses identical keys. No length bound is involved (wrappers are loop-free apart from the key comparison, unwound completely).",
    note="Trusted: CBMC, the classification table spec/api_domain.py (from FIPS.md), the ghost model of isal_self_tests (the real one is C17's subject). Internals are stubs (reach counter + argument log)."),
 "C16": dict(engine="cbmc-c", design_ref="DESIGN.md 4/C16", technique="bounded model checking (CBMC) of the real API wrapper TUs; pointer arguments NULL/valid/dangling, scalars symbolic; legacy vs isal_ reach-same-internal equivalence",
    text="For every isal_ entry point CBMC decides over all combinations of NULL / valid / dangling pointers and all scalar values that an out-of-domain call returns a documented code of an offending argument, reaches no internal, dereferences nothing (dangling pointers make any dereference a failed pointer check) and changes no object, and that in-domain calls return 0 and hand the caller's arguments unchanged to the internal; each legacy entry point reaches the same internal with the same argument tuple as its isal_ counterpart.",
    note="Trusted: CBMC, the domain table spec/api_domain.py (written from the headers), positional correspondence of legacy/isal_ arguments. Internals are uninterpreted stubs."),
}
NOT_APPLICABLE = {p: "check under construction in this round (design in DESIGN.md section 4); not claimed until its command exists and passes on the unchanged tree" for p in
                  ["C01", "C02", "C03", "C04", "C05", "C06", "C07", "C08", "C09", "C10", "C11", "C12", "C14", "C15", "C17", "C18", "C19", "C20"]}
