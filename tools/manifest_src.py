HOOKS = {"guard": "ISAL_CRYPTO_VERIF", "enable": "no source hook is needed by the checks registered so far (they analyse the unhooked sources/objects); reserved: -DISAL_CRYPTO_VERIF",
         "baseline_off_cmd": "cd /repo && make -f Makefile.unx -j8 check", "source_commits": [], "add_only": True}
ENGINES = [
    {"name": "cbmc-c", "path": "lib/cbmcrun.py, lib/apicheck.py, lib/apigen.py, cbmc/", "serves_properties": ["C13", "C16"],
     "kind_free_text": "CBMC 6.11 bounded model checking of the real C translation units (goto-cc with the build's flags), generated harnesses, contract stubs, WITNESS twins, native replay of counterexamples"},
]
NOTES = "See DESIGN.md. Every check regenerates its encoding from /repo's working tree; exit 0 = held within the stated bounds, 1 = replay-confirmed VIOLATION, 3 = INCONCLUSIVE (never reported as success)."
CHECKS = {
 "C13": dict(engine="cbmc-c", design_ref="DESIGN.md 4/C13", technique="bounded model checking (CBMC) of the real API wrapper TUs built with -DFIPS_MODE; symbolic arguments, ghost self-test state machine",
    text="For every discovered isal_ entry point, CBMC decides for all argument values and all self-test states {not run, passed, failed} x first-run outcomes that approved entry points return ISAL_CRYPTO_ERR_SELF_TEST, reach no internal and leave every argument object unchanged once the tests failed, do no crypto before a pass, that non-approved ones always return FIPS_INVALID_ALGO, and that XTS refuses identical keys. No length bound is involved (wrappers are loop-free apart from the key comparison, unwound completely).",
    note="Trusted: CBMC, the classification table spec/api_domain.py (from FIPS.md), the ghost model of isal_self_tests (the real one is C17's subject). Internals are stubs (reach counter + argument log)."),
 "C16": dict(engine="cbmc-c", design_ref="DESIGN.md 4/C16", technique="bounded model checking (CBMC) of the real API wrapper TUs; pointer arguments NULL/valid/dangling, scalars symbolic; legacy vs isal_ reach-same-internal equivalence",
    text="For every isal_ entry point CBMC decides over all combinations of NULL / valid / dangling pointers and all scalar values that an out-of-domain call returns a documented code of an offending argument, reaches no internal, dereferences nothing (dangling pointers make any dereference a failed pointer check) and changes no object, and that in-domain calls return 0 and hand the caller's arguments unchanged to the internal; each legacy entry point reaches the same internal with the same argument tuple as its isal_ counterpart.",
    note="Trusted: CBMC, the domain table spec/api_domain.py (written from the headers), positional correspondence of legacy/isal_ arguments. Internals are uninterpreted stubs."),
}
X_NOTE = "Trusted: CBMC; manager contract M and kernel contract K (stubs here, decided on the assembly by the asmsym parts); the stream-provenance model in cbmc/ctx_harness.c; composition K o M o X is a paper argument. Pointer-overflow checking is off in this harness (the caller's buffer is a 1-byte object used only for address arithmetic)."
CHECKS.update({
 "C01": dict(engine="cbmc-c", design_ref="DESIGN.md 4/C01 (X)", technique="bounded model checking (CBMC): one inductive step of the real context layer per file from an arbitrary valid state, symbolic 64-bit totals / 32-bit lengths, stream-provenance ghost model",
    text="For each of the 29 multi-buffer *_ctx_<family>.c files CBMC decides, for an arbitrary idle/fresh/complete context, arbitrary 64-bit running total, arbitrary 32-bit length, flags and buffer address, that the jobs handed to the manager cover exactly the next unhashed stream bytes in order (carried block, bulk blocks, padding), that the chaining value given to each job is the previous job's result or the standard IV, that the padding is the standard padding of the exact total (real hash_pad proved separately for all totals), and that the state left behind satisfies the invariant again. No length bound.",
    note=X_NOTE),
 "C06": dict(engine="cbmc-c", design_ref="DESIGN.md 4/C06 (X)", technique="bounded model checking (CBMC) of the real context layer: flush / submit / resubmit steps from arbitrary in-flight states with conservation assertions",
    text="CBMC decides per context-layer file that a context handed back is not inside the manager and not marked PROCESSING, is COMPLETE exactly after LAST and IDLE otherwise, that a context kept inside is marked PROCESSING, that no context is dropped (neither returned nor held), that flush returns NULL only when the manager holds nothing and returns only submitted contexts, and that user_data is untouched.",
    note=X_NOTE),
 "C11": dict(engine="cbmc-c", design_ref="DESIGN.md 4/C11", technique="bounded model checking (CBMC): single-step rejection harness on every context-layer file + wrapper scenario (real isal_ submit wrapper + real context layer + nondeterministic manager)",
    text="CBMC decides for all five context statuses, all 32-bit flag values and all arguments that a rejected submit returns the context with the matching error, never reaches the manager and leaves every other context field unchanged; and that the isal_ wrapper returns 0 for every submit that passes the three acceptance tests even when the manager hands back another context carrying a stale error (P0/P1 of DESIGN.md).",
    note=X_NOTE),
 "C15": dict(engine="cbmc-c", design_ref="DESIGN.md 4/C15", technique="bounded model checking (CBMC): context-layer induction step with free 64-bit totals (thorough: explicit slices beyond 2^29, 2^32, 2^32+2^29) and the real hash_pad against the padding definition",
    text="CBMC decides that total_length after a step equals the previous total plus len (no wrap), that the padding length field is the 64-/128-bit encoding of total*8 for every 64-bit total below 2^61 (real hash_pad, all families incl. little-endian MD5), and that every job's block count stays inside the manager's precondition.",
    note=X_NOTE),
})
CHECKS["C17"] = dict(engine="cbmc-c+lift", design_ref="DESIGN.md 4/C17", technique="assembly lifted to C from the assembled object (asmsym/lift_c.py) + CBMC exploration of all interleavings of 2-4 threads through the real isal_self_tests()",
    text="The 14-instruction status/claim/publish protocol of fips/asm_self_tests.asm is lifted from the freshly assembled object to C (one atomic statement per shared access, lock cmpxchg atomic) and linked with the real fips/self_tests.c; CBMC explores every interleaving of 2 and 3 threads (thorough: up to 4) making a first and a second call, for all pass/fail outcomes, and decides: each self-test group entered exactly once, no call returns before the verdict is published, all return values equal the published verdict, the status word never changes after publication, no thread keeps spinning after publication. A second harness decides that the real _sha_self_tests/_aes_self_tests stay in their documented return range.",
    note="Bounds: threads <= 3 (4 thorough), spin iterations <= 2 by fairness assumption, sequentially consistent memory. Trusted: objdump's decoding, the lifter (scalar subset, aborts on anything else), CBMC.")
ENGINES.append({"name": "asmsym-lift", "path": "asmsym/elfobj.py, asmsym/lift_c.py", "serves_properties": ["C13", "C17"], "kind_free_text": "ELF/objdump front end + scalar assembly-to-C lifter used to put the assembled protocol code under CBMC"})
for e in ENGINES:
    if e["name"] == "cbmc-c":
        e["serves_properties"] = ["C01", "C06", "C11", "C13", "C15", "C16", "C17"]
        e["path"] += ", lib/ctxlayer.py"
NOT_APPLICABLE = {p: "check under construction in this round (design in DESIGN.md section 4); not claimed until its command exists and passes on the unchanged tree" for p in
                  ["C01", "C02", "C03", "C04", "C05", "C06", "C07", "C08", "C09", "C10", "C11", "C12", "C14", "C15", "C17", "C18", "C19", "C20"]}
