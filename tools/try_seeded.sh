#!/bin/bash
# try_seeded.sh <seeded name> <check id>... : apply the seeded change to /repo, run the checks, undo it
name=$1; shift
cd /verif
git -C /repo diff --quiet || { echo "/repo has local changes"; exit 9; }
git -C /repo apply /verif/seeded/$name/patch.diff || exit 8
for c in "$@"; do
  out=$(./check $c 2>&1); rc=$?
  echo "== $name under $c: exit=$rc"; echo "$out" | grep -E "^VIOLATION|^  what|^KNOWN|^INCONCLUSIVE|^OK" | cut -c1-400 | head -8
done
git -C /repo checkout -- .
