#!/usr/bin/env python3
"""Regenerate MANIFEST.json from tools/manifest_src.py (single source of per-check texts)."""
import json, os, sys
HERE = os.path.dirname(os.path.abspath(__file__))
sys.path.insert(0, HERE)
import manifest_src as S
checks = []
for pid, c in sorted(S.CHECKS.items()):
    checks.append({"property_id": pid, "quick_cmd": "./check %s --tier quick" % pid, "thorough_cmd": "./check %s --tier thorough" % pid,
                   "evidence_file": "evidence/%s.json" % pid, "replay_cmd_template": "./check %s --replay {path}" % pid,
                   "engine": c["engine"], "level_claimed": {"category": c.get("category", "model_checking"), "text": c["text"], "design_ref": c["design_ref"]},
                   "level_note": c["note"], "technique": c["technique"]})
na = [{"property_id": p, "reason": r} for p, r in sorted(S.NOT_APPLICABLE.items()) if p not in S.CHECKS]
m = {"version": 1, "setup_cmd": "./setup.sh", "hooks": S.HOOKS, "engines": S.ENGINES, "checks": checks, "not_applicable": na, "notes": S.NOTES}
json.dump(m, open(os.path.join(HERE, "..", "MANIFEST.json"), "w"), indent=1)
print("checks:", [c["property_id"] for c in checks], "not_applicable:", [n["property_id"] for n in na])
