"""C10 - mh_sha1_murmur3_x64_128 returns both digests as if computed separately: CBMC on the real stitched glue of every
family (stitched kernels and murmur3_x64_128_internal.c: asmsym part).  Harness: cbmc/mh_harness.c (ALG=3)."""
from common import Evidence, Verdict, scratch
import mhglue
import aescampaign


def run(tier):
    ev, vd = Evidence("C10", tier), Verdict("C10", tier)
    wd = scratch("c10")
    jobs = mhglue.mh_jobs([3])
    jobs += [j for j in mhglue.shafinal_jobs([1], wd, tier) if "-DLENMODE=1" in j["defines"]]
    jobs += [mhglue.mh_job(3, "base", 1, 0, beyond=True), mhglue.mh_job(3, "base", 2, 0, beyond=True)]
    if tier != "quick":
        for i, fam in enumerate(mhglue.FAMS):
            for k in range(1, len(mhglue.CTXOFFS)):
                jobs += [mhglue.mh_job(3, fam, 1, i * 2 + k), mhglue.mh_job(3, fam, 2, i * 2 + k)]
    mhglue.run("C10", tier, jobs, ev, vd)
    # stitched assembly kernels (asmsym): SHA-1 interim digests of all 16 segments AND the murmur state after the call, for all inputs
    aescampaign.run("C10", tier, ev, vd, only=("murkernel",))
    ev.assume("stitched kernels: z3 proves for %s per call, all input bytes, all incoming interim digests and both incoming murmur words, that the SHA-1 interim digests equal the iterated standard compression per segment and that the murmur state equals the MurmurHash3_x64_128 body applied to the 16-byte units in order (one cut point per unit)" % ("one 1024-byte block" if tier == "quick" else "two 1024-byte blocks"))
    ev.cov["bounds"].update(mhglue.MH_BOUNDS)
    ev.cov["bounds"]["murmur"] = "seed free 64-bit; every total mod 16 (tails 0..15) and every fill level; murmur state observed through all four words"
    ev.cov["outside_bounds"] += [x for x in mhglue.MH_OUTSIDE if not x.startswith("the block kernels")] + ["stitched kernels: more than %d block(s) per call" % (1 if tier == "quick" else 2), "arithmetic of the C murmur block / tail / finalisation functions (murmur3_x64_128_internal.c) and of the base C block function"]
    ev.extend_unique("stubs", mhglue.MH_STUBS + ["stitched kernels _mh_sha1_murmur3_x64_128_block_{sse,avx,avx2,avx512}: mh_sha1 block logger + murmur logger over the same 1024*n bytes (64*n units); _block_base is the real C wrapper",
                                                 "_murmur3_x64_128_block / _murmur3_x64_128_tail: loggers checking that every 16-byte unit of the stream is consumed exactly once and in order, that the tail gets the bytes at total mod 16 and the TOTAL length, and that the bytes they read are still the carried stream bytes (not yet overwritten by the mh_sha1 padding)"])
    ev.assume(*mhglue.MH_ASSUME)
    ev.assume("the real _mh_sha1_tail_<family> (mh_sha1/mh_sha1_finalize_base.c) runs inside the stitched finalize, so the order 'murmur remainder first, then the padding that overwrites the partial buffer' is checked on the real code of both units")
    return ev, vd
