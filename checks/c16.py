"""C16 - SAFE_PARAM argument refusal without side effects; legacy == isal_ (CBMC on the real wrapper TUs)."""
import apicheck


def run(tier):
    ev, vd = apicheck.run("C16", "c16", tier)
    ev.assume("argument domains and error codes are spec/api_domain.py, written from the public headers",
              "hash submit: validity of flags/context state is the context layer's business (C11); the manager stub hands back only error-free contexts here",
              "precedence between two simultaneously bad arguments is not part of the property: any bad argument's documented code is accepted",
              "legacy/isal_ agreement is shown as: same internal function reached once with the same argument tuple (so equal results for every implementation of the internal)")
    return ev, vd
