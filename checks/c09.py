"""C09 - rolling-hash boundaries depend only on the last w bytes (CBMC inductive step on the real C; asm scans: asmsym)."""
import os
import common, cbmcrun
from common import VERIF, REPO, Evidence, Verdict, scratch, run_jobs


def run(tier):
    ev, vd = Evidence("C09", tier), Verdict("C09", tier)
    wd = scratch("c09")
    ws = [1, 2, 3, 4] if tier == "quick" else [1, 2, 3, 4, 5, 6, 7, 8, 12, 16]
    extra_n = 4 if tier == "quick" else 6
    jobs = []
    for w in ws:
        n = w + extra_n
        jobs.append(("run w=%d N=%d" % (w, n), "c09_harness.c", ["-DW=%d" % w, "-DN=%d" % n], w + n + 2))
        jobs.append(("reset w=%d" % w, "c09_misc.c", ["-DPART=2", "-DW=%d" % w], w + 2))
    jobs.append(("run w=3 N=2 (max_len < w)", "c09_harness.c", ["-DW=3", "-DN=2"], 8))
    # the assembly scans, lifted from the freshly assembled objects (asmsym/lift_rh.py), in place of the portable C scan
    import sys
    sys.path.insert(0, os.path.join(VERIF, "asmsym"))
    import lift_rh, lift_c
    lifted = {}
    for v in ("00", "04"):
        try:
            o = common.nasm_obj("rolling_hash/rolling_hash2_until_%s.asm" % v, wd)
            path = os.path.join(wd, "lifted_%s.c" % v)
            open(path, "w").write(lift_rh.lift(o, "_rolling_hash2_run_until_%s" % v, "lifted_run_until_%s" % v))
            lifted[v] = path
        except (lift_c.LiftError, common.BuildError) as ex:
            vd.inconcl("rolling_hash2_until_%s.asm could not be lifted: %s" % (v, str(ex)[:300]))
    masks04 = ["0x0u", "0xfu", "0x1ff0u", "0xffff0000u"] if tier == "quick" else ["0x0u", "0x1u", "0xfu", "0x1ff0u", "0x00ffff00u", "0xffff0000u", "0x80000001u", "0xffffffffu"]
    for w in ([1, 2, 3] if tier == "quick" else [1, 2, 3, 4, 5, 8]):
        n = w + extra_n + 1
        if "00" in lifted:
            jobs.append(("run[asm _00] w=%d N=%d" % (w, n), "c09_harness.c", ["-DW=%d" % w, "-DN=%d" % n, '-DSCAN_FILE="%s"' % lifted["00"], "-DSCAN_FN=lifted_run_until_00"], w + n + 2))
        if "04" in lifted:
            for mk in masks04:
                jobs.append(("run[asm _04 mask=%s] w=%d N=%d" % (mk, w, n), "c09_harness.c", ["-DW=%d" % w, "-DN=%d" % n, "-DFIXED_MASK=%s" % mk, '-DSCAN_FILE="%s"' % lifted["04"], "-DSCAN_FN=lifted_run_until_04"], w + n + 2))
    for w in (ws if tier == "quick" else list(range(1, 49))):
        jobs.append(("table-pin+init w=%d" % w, "c09_misc.c", ["-DPART=1", "-DW=%d" % w], 258))
    jobs.append(("mask_gen", "c09_misc.c", ["-DPART=3", "-DW=1"], 34))
    alljobs = [(j, False) for j in jobs] + [(j, True) for j in jobs]

    def one(x):
        (name, f, defs, uw), wit = x
        defs = defs + ["-I" + REPO, "-I" + os.path.join(VERIF, "spec")]
        files = [os.path.join(VERIF, "cbmc", f), os.path.join(VERIF, "cbmc", "verif_support.c")]
        to = 600 if tier == "quick" else 1800
        flags = [fl for fl in cbmcrun.CBMC_FLAGS if fl != "--pointer-overflow-check"]
        r = cbmcrun.run_cbmc(files, defines=defs, unwind=uw, witness=wit, timeout=to, want_trace=False, extra=["--slice-formula", "--arrays-uf-always"], flags_override=None if wit else flags)
        if r.status == "FAILED" and not wit:
            r2 = cbmcrun.run_cbmc(files, defines=defs, unwind=uw, timeout=to, want_trace=True, flags_override=flags, extra=["--arrays-uf-always"])
            if r2.status == "FAILED":
                r = r2
        return r

    res = run_jobs(alljobs, one)
    for ((name, f, defs, uw), wit), r in zip(alljobs, res):
        ev.add("queries", 1)
        ev.cov["solver_s"] += r.solver_s
        if wit:
            if not (r.status == "FAILED" and any("WITNESS" in d for _, d, _, _ in r.failed)):
                vd.inconcl("vacuity guard failed for %s (%s %s)" % (name, r.status, r.msg[:200]))
            continue
        ev.add("states", 1)
        ev.add("transitions", max(r.steps, 1))
        ev.add("obligations", r.nprops)
        if r.status == "SUCCESS":
            ev.add("discharged", r.nprops)
            ev.sample({"instance": name, "properties_checked": r.nprops, "verdict": "SUCCESS", "cbmc_s": round(r.wall, 1)})
            continue
        if r.status != "FAILED":
            vd.inconcl("%s: cbmc %s %s" % (name, r.status, r.msg[:300]))
            continue
        cands = sorted(r.failed, key=lambda x: (not x[1].startswith("C09"), x[1]))
        descs = [d for _, d, _, _ in cands]
        mine = [d for d in descs if "C09" in d.split(":")[0]] or ([] if any(d.startswith("C0") for d in descs) else descs)
        if not mine:
            ev.extend_unique("failures_attributed_to_other_properties", descs[:5])
            continue
        ok, out = cbmcrun.native_replay([os.path.join(VERIF, "cbmc", f), os.path.join(VERIF, "cbmc", "verif_support.c")], cands[0][2],
                                        defines=defs + ["-I" + REPO, "-I" + os.path.join(VERIF, "spec")], outdir=wd)
        ev.add("traces_validated_against_impl", 1)
        key = "C09:%s:%s" % (name.split()[0], mine[0].split(":", 1)[1] if ":" in mine[0] and mine[0].startswith("C") else mine[0])
        if ok:
            rp = common.save_replay("C09", key, {"instance": name, "failed": descs, "nd_values": cands[0][2], "native_replay": out[-600:], "cbmc_cmd": r.cmd})
            vd.violation(key, "%s: %s" % (name, "; ".join(mine)[:400]), rp)
        else:
            vd.inconcl("%s: counterexample for '%s' not reproduced natively: %s" % (name, mine[0], out[-300:]))
    ev.extend_unique("units", ["rolling_hash/rolling_hash2.c", "rolling_hash/rolling_hashx_base.c", "rolling_hash/rolling_hash2_table.h"])
    ev.extend_unique("units", ["rolling_hash/rolling_hash2_until_00.asm (lifted from the assembled object)", "rolling_hash/rolling_hash2_until_04.asm (lifted from the assembled object)"])
    ev.assume("assembly scans: lifted instruction by instruction from the assembled object (System V entry, three stack arguments; undefined registers/flags are nondeterministic draws; the int length argument is zero-extended); _04: pext with a symbolic mask gives no verdict, so the mask is one of the listed constants per run (the _00 scan and the C scan are decided for every mask)")
    ev.cov["bounds"]["asm_scan_04_masks"] = masks04
    ev.extend_unique("functions_encoded", ["_rolling_hash2_run_until_00 (lifted)", "_rolling_hash2_run_until_04 (lifted)", "_rolling_hash2_run", "hash_fn", "_rolling_hash2_run_until_base", "_rolling_hash2_reset", "_rolling_hash2_init", "_rolling_hashx_mask_gen"])
    ev.cov["bounds"].update({"windows": ws, "buffer_bytes_per_call": "w+%d" % extra_n, "tables": "table1 arbitrary (not the constants): the result holds for every table", "mask/trigger": "free 32-bit with trigger & ~mask == 0"})
    ev.cov["outside_bounds"] += ["windows not listed", "calls longer than the bound (one inductive step covers any history of calls within the bound)", "the SSE/AVX2 scan kernels (asmsym part)", "max_len >= 2^31 (int max_idx of the portable scan)"]
    ev.assume("representation invariant assumed on entry and re-established on exit: hash == H_w(history[0..w)), table2[b] == rol64(table1[b], w)",
              "call-splitting independence follows by induction over calls from this one step (paper step)",
              "mask_gen: shift in 1..31 and mean < 2^31 (outside: undefined C shift in rol() resp. signed overflow in floor_pow2()-1; compiler-defined behaviour, noted, not a violation)")
    return ev, vd
