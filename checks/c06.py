"""C06 - no job lost / duplicated / stranded; flush drains (context layer X part: CBMC; manager M part: asmsym)."""
from common import Evidence, Verdict
import ctxlayer


def run(tier):
    ev, vd = Evidence("C06", tier), Verdict("C06", tier)
    ctxlayer.run("C06", tier, [2, 1, 4], ev, vd)
    ev.assume("manager contract M (flush returns NULL iff it holds no job; submit/flush return only jobs they hold) is assumed here and decided on the assembly by the M-level check",
              "'finitely many flush calls' follows from the per-step measure: every flush call that finds a job either returns a context or strictly advances that context's phase (carried block -> bulk -> padding -> done); checked per step, composed on paper",
              "flush scenario: jobs resubmitted during a flush stay in the manager until a later flush (the immediate-return order is the resubmit scenario)")
    return ev, vd
