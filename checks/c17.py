"""C17 - FIPS self-tests run exactly once under any interleaving (asm lifted to C + CBMC interleavings)."""
import os, re, subprocess, time
import common, cbmcrun
from common import VERIF, REPO, Evidence, Verdict, scratch, inc_flags, BASE_DEFS, run_jobs
import lift_c


def run(tier):
    ev, vd = Evidence("C17", tier), Verdict("C17", tier)
    return protocol("C17", tier, ev, vd)


def protocol(pid, tier, ev, vd, only_quick_configs=False):
    """The self-test protocol harnesses; failures are attributed to `pid` when the assertion's tag list names it."""
    wd = scratch(pid.lower() + "p")
    try:
        obj = common.nasm_obj("fips/asm_self_tests.asm", wd, extra=["-DFIPS_MODE"])
        lf = lift_c.Lifter(obj)
        code = [lf.lift_function("asm_check_self_tests_status", 0, "int"), lf.lift_function("asm_set_self_tests_status", 1, "void")]
        code[1] = code[1].replace("return (int) (uint32_t) rax;", "return;").replace("void asm_set_self_tests_status(uint64_t a0)", "void asm_set_self_tests_status(int a0_)").replace(
            "rdi = a0,", "rdi = (uint64_t) (uint32_t) a0_,")
        lifted = os.path.join(wd, "lifted_asm_self_tests.c")
        open(lifted, "w").write("/* lifted from %s by asmsym/lift_c.py */\n" % obj + lf.globals_c() + "\n" + "\n\n".join(code) + "\n")
    except (lift_c.LiftError, common.BuildError) as ex:
        vd.inconcl("cannot lift fips/asm_self_tests.asm: %s" % ex)
        return ev, vd
    ev.extend_unique("functions_encoded", ["asm_check_self_tests_status (lifted from the object)", "asm_set_self_tests_status (lifted from the object)", "isal_self_tests (fips/self_tests.c)"])
    ev.extend_unique("units", ["fips/asm_self_tests.asm", "fips/self_tests.c", "fips/sha_self_tests.c", "fips/aes_self_tests.c"])
    ev.cov["lifted_c"] = open(lifted).read()[:6000]
    configs = [(2, 2), (3, 1)] if (tier == "quick" or only_quick_configs) else [(2, 2), (2, 4), (3, 2), (4, 1)]
    jobs = []
    for (n, spin) in configs:
        for wit in (False, True):
            jobs.append(("threads", n, spin, wit))
    for which in (1, 2):
        jobs.append(("range", which, 0, False))
        jobs.append(("range", which, 0, True))

    def one(j):
        kind, n, spin, wit = j
        if kind == "threads":
            defs = ["-DFIPS_MODE", '-DLIFTED="%s"' % lifted, "-DNTHREADS=%d" % n, "-DSPIN_MAX=%d" % spin, "-DRET_DOMAIN(x)=((x)&1)", "-I" + REPO]
            return cbmcrun.run_cbmc([os.path.join(VERIF, "cbmc", "c17_harness.c"), os.path.join(VERIF, "cbmc", "verif_support.c")], defines=defs,
                                    unwind=spin + 3, witness=wit, timeout=1200 if tier == "quick" else 7200, extra=[] if wit else [])
        defs = ["-DFIPS_MODE", "-I" + REPO, "-DWHICH=%d" % n] + (["-DWITNESS"] if wit else [])
        gb = cbmcrun.build_gb([os.path.join(VERIF, "cbmc", "c17_range.c"), os.path.join(VERIF, "cbmc", "verif_support.c")],
                              os.path.join(wd, "range%d%s.gb" % (n, "w" if wit else "")), defs, havoc_undefined="^_(sha|aes|XTS).*")
        return cbmcrun.run_cbmc([gb], defines=defs,
                                unwind=64 if n == 1 else 260, witness=wit, timeout=1200, extra=["--slice-formula"])

    res = run_jobs(jobs, one)
    for j, r in zip(jobs, res):
        kind, n, spin, wit = j
        name = "%d threads, spin<=%d" % (n, spin) if kind == "threads" else "return range of %s" % ("_sha_self_tests" if n == 1 else "_aes_self_tests")
        ev.add("queries", 1)
        ev.cov["solver_s"] += r.solver_s
        if wit:
            if not (r.status == "FAILED" and any("WITNESS" in d for _, d, _, _ in r.failed)):
                vd.inconcl("vacuity guard failed for %s (%s %s)" % (name, r.status, r.msg[:200]))
            continue
        ev.add("states", 1)
        ev.add("transitions", max(r.steps, 1))
        ev.add("obligations", r.nprops)
        if r.status == "SUCCESS":
            ev.add("discharged", r.nprops)
            ev.sample({"config": name, "properties_checked": r.nprops, "verdict": "SUCCESS", "cbmc_s": round(r.wall, 1)})
            continue
        if r.status != "FAILED":
            vd.inconcl("%s: cbmc %s %s" % (name, r.status, r.msg[:300]))
            continue
        descs = sorted(set(d for _, d, _, _ in r.failed))
        tagged = [d for d in descs if re.match(r"^(C\d\d,?)+:", d)]
        mine = [d for d in tagged if pid in d.split(":")[0].split(",")] or ([] if tagged else descs)
        if not mine:
            ev.extend_unique("failures_attributed_to_other_properties", descs[:6])
            continue
        key = "%s:%s:%s" % (pid, kind, re.sub(r"^[C\d,]+:", "", mine[0]))
        rp = common.save_replay(pid, key, {"config": name, "failed": descs, "cbmc_cmd": r.cmd,
                                              "note": "interleaving counterexample; replay = re-run the command with --trace (schedules are not natively forceable); the protocol code is 14 instructions, listed in evidence.lifted_c"})
        vd.violation(key, "%s: %s" % (name, "; ".join(mine)[:400]), rp)
    ev.cov["bounds"].update({"threads": [c[0] for c in configs], "spin_iterations": [c[1] for c in configs], "outcomes": "each self-test group passes or fails (documented range {0,1})",
                             "memory_model": "sequential consistency"})
    ev.cov["outside_bounds"] += ["more threads / longer spinning than listed", "x86-TSO store buffering (the only racing write is a locked RMW followed by a plain store read by polling)", "fips/self_tests_generic.c (non-x86 build)"]
    ev.assume("_aes_self_tests/_sha_self_tests return values in their documented range {0,1}: decided for the real functions by the 'self-test return range' harness with the crypto entry points stubbed",
              "spinning is bounded by assumption (fair scheduler); waiting after the verdict is published is asserted not to happen")
    return ev, vd
