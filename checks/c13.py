"""C13 - FIPS build fails closed (CBMC on the real API wrapper TUs, -DFIPS_MODE)."""
import apicheck
import c17


def run(tier):
    ev, vd = apicheck.run("C13", "c13", tier)
    # the verdict that the wrappers consult must itself be sticky and fail-closed: real isal_self_tests() +
    # the lifted status/claim assembly under all 2/3-thread interleavings (shared with C17)
    c17.protocol("C13", tier, ev, vd, only_quick_configs=True)
    ev.assume("isal_self_tests() is modelled by a ghost state machine following FIPS.md (not-run -> passed|failed, sticky); the real function is verified under C17",
              "otherwise-valid arguments: every pointer refers to a live object of the documented size, scalars inside their documented domain",
              "approved / non-approved classification of each entry point is spec/api_domain.py (from FIPS.md); an unclassified new entry point makes the check inconclusive")
    ev.cov["exhaustive_over"] = "entry points x self-test states {not-run,passed,failed} x first-run outcomes {pass,fail}; argument values symbolic"
    return ev, vd
