"""C19 - every entry point preserves the callee-saved machine state (asmsym frame mode + z3 VCs)."""
import os, re, time
import common
from common import Evidence, Verdict, scratch, REPO
import libimage, frame

_LIB = None


def entry_points(L):
    exported = set()
    try:
        for ln in open(os.path.join(REPO, "isa-l_crypto.def")):
            m = re.match(r"^\s*([A-Za-z_]\w*)", ln)
            if m and m.group(1) not in ("LIBRARY", "EXPORTS"):
                exported.add(m.group(1))
    except OSError:
        pass
    out = []
    for name, (o, sec, addr) in sorted(L.globals.items()):
        s = o.elf.sym(name)
        if s is None or not (o.elf.sections[s.shndx].flags & 4):
            continue
        if name.startswith("isal_") or name in exported or (name.startswith("_") and not name.startswith("__")):
            if name.endswith(("_slver", "_dispatched")) or re.search(r"_slver_[0-9a-f]+$", name):
                continue
            out.append((name, (o, sec, addr)))
    return out


def worker(archive, wd, shard, nshards, max_states):
    """Runs in its own process: builds its own library image (cheaper than sharing one across forks)."""
    import json, sys
    L = libimage.LibImage(archive, wd, nproc=2)
    eps = entry_points(L)
    out = []
    for k, (name, start) in enumerate(eps):
        if k % nshards != shard:
            continue
        fa = frame.FrameAnalyzer(L, max_states=max_states)
        t = time.time()
        try:
            probs = fa.analyze(name, start)
            out.append((name, "ok", probs, fa.stats, time.time() - t, start[0].name))
        except frame.Finding as f:
            out.append((name, "limit", [str(f)], fa.stats, time.time() - t, start[0].name))
        except Exception as ex:   # engine bug: inconclusive, never a verdict
            out.append((name, "error", ["%s: %s" % (type(ex).__name__, ex)], fa.stats, time.time() - t, start[0].name))
    json.dump(out, open(os.path.join(wd, "result.json"), "w"))


def run(tier):
    import subprocess, json, sys
    ev, vd = Evidence("C19", tier), Verdict("C19", tier)
    wd = scratch("c19")
    src, archive = common.build_lib(tag="c19lib")
    n = common.NPROC
    max_states = 3000000 if tier == "quick" else 20000000
    procs = []
    for k in range(n):
        d = os.path.join(wd, "w%d" % k)
        os.makedirs(d)
        code = "import sys; sys.path[:0]=%r; import c19; c19.worker(%r, %r, %d, %d, %d)" % (
            [os.path.join(common.VERIF, x) for x in ("lib", "asmsym", "checks", "spec")], archive, d, k, n, max_states)
        procs.append((d, subprocess.Popen([sys.executable, "-c", code], stdout=subprocess.PIPE, stderr=subprocess.PIPE, text=True)))
    res = []
    for d, p in procs:
        try:
            out, err = p.communicate(timeout=3000 if tier == "quick" else 20000)
        except subprocess.TimeoutExpired:
            p.kill()
            vd.inconcl("frame worker timed out")
            continue
        rf = os.path.join(d, "result.json")
        if p.returncode != 0 or not os.path.exists(rf):
            vd.inconcl("frame worker failed: %s" % err[-400:])
            continue
        res += json.load(open(rf))
    eps = [(r[0], r[5]) for r in res]
    tot = {}
    slow = []
    for name, status, probs, stats, dt, objname in res:
        for k, v in stats.items():
            tot[k] = tot.get(k, 0) + v
        if dt > 20:
            slow.append((round(dt, 1), name))
        ev.add("states", stats["paths"])
        ev.add("transitions", stats["steps"])
        if status == "ok":
            ev.add("obligations", 1)
            if not probs:
                ev.add("discharged", 1)
                ev.sample({"entry": name, "paths": stats["paths"], "instructions_executed": stats["steps"], "returns_checked": stats["rets"], "z3_vcs": stats["vcs"], "verdict": "preserved on every CFG path"}, limit=8)
            else:
                uniq = sorted(set(probs))
                key = "C19:%s:%s" % (name, re.sub(r"\(.*?\)", "", uniq[0])[:80].strip())
                rp = common.save_replay("C19", key, {"entry": name, "problems": uniq[:20],
                                                      "note": "over-approximate CFG exploration (both branch directions); each problem names the return site and the register/stack state there"})
                vd.violation(key, "%s: %s" % (name, "; ".join(uniq[:3])[:500]), rp)
        else:
            vd.inconcl("%s: %s" % (name, probs[0][:300]))
    ev.cov["queries"] = tot.get("vcs", 0)
    ev.cov["solver_s"] = tot.get("solver_s", 0.0)
    ev.cov["entry_points"] = len(eps)
    ev.cov["engine_stats"] = {k: (round(v, 2) if isinstance(v, float) else v) for k, v in tot.items()}
    ev.cov["slowest"] = sorted(slow, reverse=True)[:10]
    ev.extend_unique("functions_encoded", sorted(n_ for n_, _ in eps)[:600])
    ev.extend_unique("units", sorted(set(o_ for _, o_ in eps)))
    ev.cov["bounds"] = {"paths": "all CFG paths of every entry point (both directions of every conditional branch), loops closed by state subsumption", "call_depth": "helpers inlined to depth 6"}
    ev.cov["outside_bounds"] += ["MXCSR/x87/DF: only the absence of reachable std/ldmxcsr/fldcw/fninit/popf is checked", "win64 / 32-bit builds"]
    ev.assume("indirect and dispatched callees conform to the ABI (each is itself an entry point of this campaign)",
              "stack stores through a dynamic index stay inside the function's own locals (counted in engine_stats.dynamic_stack_stores)",
              "a realigned stack area (and rsp,-N after sub rsp,F) overlaps older slots only beyond F bytes (DESIGN.md C19)",
              "over-approximation: infeasible CFG paths are explored too, so a reported path may need confirmation; on the unchanged tree there is none")
    return ev, vd
