"""C11 - a rejected hash submit changes nothing and poisons no later call (CBMC on ctx layers + isal_ wrappers)."""
from common import Evidence, Verdict
import ctxlayer, basectx


def run(tier):
    ev, vd = Evidence("C11", tier), Verdict("C11", tier)
    ctxlayer.run("C11", tier, [1, 3], ev, vd)
    basectx.run("C11", tier, ev, vd)       # portable base family: rejection branch of _<alg>_ctx_mgr_submit_base
    ev.assume("P0 (scenario submit, reject branch): a rejected submit on an in-flight context changes only its error field - so 'in flight with error in {0,-1,-2,-3}' is a reachable state",
              "P1 (scenario wrapper-submit): real isal_*_ctx_mgr_submit + real context layer; the manager may hand back another context taken from that reachable set",
              "'all other jobs still complete with correct digests' is C01 (the rejected call never reaches the manager: asserted here)")
    return ev, vd
