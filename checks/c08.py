"""C08 (C-level part) - no access outside caller-supplied ranges, inputs unmodified: CBMC pointer checks and C08-tagged
assertions on (a) the helpers of include/memcpy_inline.h for every length in their domain, exact-size objects,
(b) the rolling hash (cbmc/c09_harness.c instances), (c) the copies / clears / block pointers of the multi-hash glue
(cbmc/mh_harness.c).  The assembly kernels' footprint is the asmsym monitor's part."""
from common import Evidence, Verdict, scratch
import mhglue
import aescampaign


def run(tier):
    ev, vd = Evidence("C08", tier), Verdict("C08", tier)
    wd = scratch("c08")
    jobs = mhglue.memcpy_jobs(wd, tier)
    jobs += mhglue.c09_jobs(tier)
    jobs += mhglue.mh_jobs([1, 2, 3], with_init=False, with_api=False)
    jobs += [j for j in mhglue.shafinal_jobs([1, 2], wd, "quick") if "-DLENMODE=1" in j["defines"]]   # reads only input[0..len): exact-size object
    jobs += [mhglue.mh_job(1, "base", 1, 0, beyond=True)]
    mhglue.run("C08", tier, jobs, ev, vd)
    # assembly part within reach of the symbolic machine: footprint monitor on key expansion, CBC, XTS, GCM init
    aescampaign.run("C08", tier, ev, vd, only=("keyexp", "cbc", "xts", "gcminit", "gcmdata", "gcmstream", "hashkernel") + (() if tier == "quick" else ("mhkernel", "murkernel")))      # quick: the multi-hash / stitched kernels run under C05 / C10 only (run time)
    ev.cov["bounds"].update({"memcpy_inline": "memcpy_varlen / memcpy_fixedlen / memclr_varlen n = 0..64 and 128 (varlen also 127), memclr_fixedlen n in {0,1,8,16,20,32,64,128}; one CBMC run per length, both object layouts" if tier == "quick" else "all four helpers, n = 0..130",
                             "rolling_hash": "windows 1..4, buffers of w+4 bytes (exact-size buffer object)" if tier == "quick" else "windows 1..6 and 8, buffers of w+4 bytes",
                             "mh_glue": mhglue.MH_BOUNDS["lengths"]})
    ev.cov["outside_bounds"] += ["assembly other than AES key expansion / CBC / XTS / GCM init (those are covered by the asmsym footprint monitor: every load and store must fall inside a region the API designates, inputs are read-only, the 12-byte IV and exact-size AAD regions end at a guard gap)", "memcpy_inline lengths not listed", "multi-buffer context layers (lib/ctxlayer.py carries their C08-tagged assertions)",
                                 "mh update with total_length + len >= 2^32 (see coverage.observations)"]
    ev.extend_unique("stubs", mhglue.MH_STUBS)
    ev.assume("memcpy_inline: source and destination are distinct objects of exactly n bytes, so any access outside is a pointer-check failure; a second layout surrounds the destination with guard bytes that must keep their values",
              "mh glue: every copy destination lies inside the 2048-byte partial buffer, every source and every bulk block range inside [buffer, buffer+len), the frame buffer handed to the kernels is 64-byte aligned with 1024 bytes inside ctx->frame_buffer, the digest goes to a buffer of exactly the digest size",
              "untagged CBMC pointer / bounds failures in these harnesses are attributed to C08")
    return ev, vd
