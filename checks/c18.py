"""C18 - no hidden shared state.  Solver part: each first-call resolver is executed symbolically and z3 decides
that the 8-byte binding it stores is a function of CPUID/XCR0 only and is written by exactly one store (so racing
first calls write identical bytes).  Auxiliary (not solver-decided, reported as such): inventory of every
writable static datum of the built library and of every instruction that can store to one."""
import os, re, time
import z3
import common
from common import Evidence, Verdict, scratch
import libimage, symscalar, frame
from elfobj import disassemble

ALLOWED = [r".*_dispatched$", r"^self_test_status$"]


def writes_memory(i):
    ops = frame.split_ops(i.text)
    if not ops or i.mnem in frame.NOWRITE:
        return False
    d = re.sub(r"\{.*?\}", "", ops[0]).strip()
    return "[" in d


def run(tier):
    ev, vd = Evidence("C18", tier, level="model_checking"), Verdict("C18", tier)
    wd = scratch("c18")
    src, archive = common.build_lib(tag="c18lib")
    L = libimage.LibImage(archive, wd)
    # ---------------- solver part: resolvers are pure and store once
    nres = 0
    for o in sorted([x for x in L.objs if "multibinary" in x.name], key=lambda x: x.name):
        insns, labels = disassemble(o.path)
        symaddr, k = {}, 0x100000
        for i in insns.values():
            if i.mnem == "lea":
                for r in i.relocs:
                    s = re.sub(r"[+-]0x[0-9a-f]+$", "", r[2])
                    if s not in symaddr:
                        symaddr[s] = k
                        k += 0x1000
        for n in labels:
            symaddr.setdefault(n, k)
            k += 0x1000
        for e in sorted(s[:-len("_dispatch_init")] for s in labels if s.endswith("_dispatch_init")):
            nres += 1
            ex = symscalar.Exec(insns, labels, symaddr)
            try:
                paths = ex.run(labels[e + "_dispatch_init"])
            except symscalar.Violation as v:
                vd.violation("C18:%s:%s" % (e, str(v)[:50]), "%s: %s" % (e, v))
                continue
            except symscalar.Unsupported as u:
                vd.inconcl("%s: resolver not analysable: %s" % (e, u))
                continue
            ev.add("states", len(paths))
            ev.add("transitions", sum(p.steps for p in paths))
            ev.cov["solver_s"] += ex.solver_s
            ev.add("queries", ex.queries)
            ev.extend_unique("functions_encoded", [e + "_dispatch_init"])
            ds = o.elf.sym(e + "_dispatched")
            for p in paths:
                ev.add("obligations", 1)
                st = p.stores
                okdst = len(st) == 1 and st[0][2] == 64 and ((st[0][0] == e + "_dispatched" and st[0][1] == 0) or (ds is not None and st[0][0] == ".data" and st[0][1] == ds.value))
                if not okdst:
                    key = "C18:%s:binding-stores" % e
                    rp = common.save_replay("C18", key, {"entry": e, "stores": [(s[0], s[1], s[2], str(z3.simplify(s[3]))[:200]) for s in st], "path": str(z3.simplify(p.cond))[:400]})
                    vd.violation(key, "%s: a first call performs %d store(s) %s instead of one 8-byte store of the final binding - a racing first call can observe an intermediate binding" % (
                        e, len(st), [(s[0], s[1]) for s in st]), rp)
                    continue
                # purity: two executions under the same CPUID/XCR0 store the same value (no stale register/flag/stack input)
                val = st[0][3]
                vars_ = set()

                def walk(t):
                    if z3.is_const(t) and t.decl().kind() == z3.Z3_OP_UNINTERPRETED:
                        vars_.add(t)
                    for c in t.children():
                        walk(c)
                walk(val)
                walk(p.cond)
                hidden = [v for v in vars_ if not (v.decl().name().startswith("cpuid_") or v.decl().name().startswith("xcr0_"))]
                if hidden:
                    ren = [(v, z3.BitVec(v.decl().name() + "_other", v.size()) if z3.is_bv(v) else z3.Bool(v.decl().name() + "_other")) for v in hidden]
                    s = z3.Solver()
                    s.add(p.cond, z3.substitute(p.cond, *ren), val != z3.substitute(val, *ren))
                    ev.add("queries", 1)
                    if s.check() != z3.unsat:
                        vd.violation("C18:%s:impure" % e, "%s: the stored binding depends on state other than CPUID/XCR0 (%s): two racing first calls may store different values" % (e, [str(h) for h in hidden][:3]))
                        continue
                ev.add("discharged", 1)
            if ds is not None:
                sec = o.elf.sections[ds.shndx]
                if ds.value % 8 or sec.align < 8:
                    ev.extend_unique("slots_not_8_byte_aligned_in_object", ["%s (%s+%d, section alignment %d)" % (e, sec.name, ds.value, sec.align)])
    ev.sample({"resolvers_analysed": nres, "obligation": "exactly one 8-byte store to <entry>_dispatched whose value is a function of CPUID leaf 1/7 and XCR0 only"})
    # ---------------- auxiliary: inventory of writable static data and of stores to it
    writable = []
    for o in L.objs:
        for s in o.elf.sections:
            if (s.flags & 1) and (s.flags & 2) and s.size > 0 and s.type in (1, 8):   # WRITE|ALLOC, PROGBITS/NOBITS
                syms = sorted([(y.value, y.name, y.size) for y in o.elf.symbols if y.shndx == s.idx and y.name and y.type != 3])
                writable.append((o, s, syms))
    inv = []
    for o, s, syms in writable:
        names = [n for _, n, _ in syms]
        bad = [n for n in names if not any(re.match(a, n) for a in ALLOWED)]
        # stores into this section from any code of the same object (static data is object-local or global)
        stores = []
        for sec, d in o.sections.items():
            for i in d.values():
                if i.reloc_sym is None:
                    continue
                hit = (i.reloc_sym == s.name) or (i.reloc_sym in names)
                if hit and writes_memory(i) and "[rip" in frame.split_ops(i.text)[0]:
                    tgt = i.reloc_sym if i.reloc_sym in names else "%s+0x%x" % (s.name, i.reloc_add)
                    stores.append((tgt, "%s:%s+0x%x %s %s" % (o.name, sec, i.addr, i.mnem, i.text)))
        # address-taking: any code reference into zero-initialised writable storage (.bss is only useful if written),
        # and, for initialised data, stores through a register that was just loaded with its address
        for sec, d in o.sections.items():
            addrs = sorted(d)
            for idx_, a_ in enumerate(addrs):
                i = d[a_]
                if i.reloc_sym is None or not ((i.reloc_sym == s.name) or (i.reloc_sym in names)):
                    continue
                if i.mnem != "lea":
                    if s.type == 8 and not writes_memory(i):
                        tgt = i.reloc_sym if i.reloc_sym in names else "%s+0x%x" % (s.name, i.reloc_add)
                        stores.append((tgt, "%s:%s+0x%x %s %s (reads zero-initialised static storage: it must be written somewhere)" % (o.name, sec, i.addr, i.mnem, i.text)))
                    continue
                tgt = i.reloc_sym if i.reloc_sym in names else "%s+0x%x" % (s.name, i.reloc_add)
                if s.type == 8:
                    stores.append((tgt, "%s:%s+0x%x %s %s (address of zero-initialised static storage taken)" % (o.name, sec, i.addr, i.mnem, i.text)))
                    continue
                reg = frame.split_ops(i.text)[0]
                for a2 in addrs[idx_ + 1: idx_ + 400]:
                    j = d[a2]
                    ops2 = frame.split_ops(j.text)
                    if j.mnem in ("ret", "jmp"):
                        break
                    if writes_memory(j) and re.search(r"\[%s[+\-\]]" % reg, ops2[0]):
                        stores.append((tgt, "%s:%s+0x%x %s %s (store through %s = &%s)" % (o.name, sec, j.addr, j.mnem, j.text, reg, tgt)))
                        break
                    if ops2 and re.sub(r"\{.*?\}", "", ops2[0]).strip() == reg and j.mnem not in frame.NOWRITE:
                        break
        inv.append({"object": o.name, "section": s.name, "bytes": s.size, "symbols": names[:8], "stores": len(stores)})
        for tgt, where in stores:
            tname = tgt
            if tgt.startswith("."):
                off = int(tgt.split("+")[1], 16)
                near = [n for v, n, sz in syms if v <= off]
                tname = near[-1] if near else tgt
            if any(re.match(a, tname) for a in ALLOWED):
                continue
            key = "C18:static-store:%s:%s" % (o.name, tname)
            rp = common.save_replay("C18", key, {"object": o.name, "datum": tname, "instruction": where})
            vd.violation(key, "library code writes static storage %s (%s): state shared by all threads and objects" % (tname, where), rp)
    for o in L.objs:   # global writable symbols written from other objects
        pass
    ev.cov["writable_static_inventory"] = inv
    ev.cov["explanation"] = "solver part: symbolic execution + z3 over the 64 resolvers; auxiliary part: static inventory of writable sections and of direct stores into them (not a solver verdict)"
    ev.cov["bounds"] = {"cpuid_xcr0": "none (symbolic)", "threads": "racing first calls are reduced to: one store, same value for the same CPU"}
    ev.cov["outside_bounds"] += ["arbitrary thread programs (reduced to footprints: C08/C20 for data, this check for static storage)", "stores through pointers to static data computed at run time (only direct rip-relative stores are inventoried)",
                                 "the self-test verdict word (C17)"]
    ev.assume("x86-64: an aligned 8-byte store is a single-copy atomic write; slots that are not 8-byte aligned inside their object are listed in the evidence",
              "operations on distinct caller objects do not interfere if the library has no writable static state besides the bindings and the self-test verdict (footprints: C08)")
    return ev, vd
