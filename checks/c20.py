"""C20 - results depend on declared inputs only: stale monitor of the asmsym runs (every register, flag, vector/mask
register, dead stack byte, output-buffer byte and undefined struct byte is a fresh stale_* symbol; no declared output
may mention one) + the context-layer / hash_pad CBMC harnesses, whose hidden state is nondeterministic by construction."""
from common import Evidence, Verdict
import aescampaign, ctxlayer


def run(tier):
    ev, vd = Evidence("C20", tier), Verdict("C20", tier)
    aescampaign.run("C20", tier, ev, vd, only=("keyexp", "cbc", "xts", "gcminit", "gcmdata", "gcmstream", "hashkernel") + (() if tier == "quick" else ("mhkernel", "murkernel")))      # quick: the multi-hash / stitched kernels run under C05 / C10 only (run time)
    ctxlayer.run("C20", tier, [5, 1], ev, vd)
    ev.cov["outside_bounds"] += ["GCM update/finalize/one-shot, hash kernels and schedulers, multi-hash kernels, rolling-hash scans (not yet executed by the engine)"]
    ev.assume("asmsym: a declared output (output bytes, round keys, GCM context fields) is a violation if its term mentions a stale_* symbol after simplification",
              "CBMC part: context memory before FIRST, padding-buffer remains and digest words are unconstrained nondeterministic values, and the asserted results are functions of the declared inputs only")
    return ev, vd
