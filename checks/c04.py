"""C04 - AES key expansion equals FIPS-197; CBC equals SP 800-38A (asmsym symbolic execution + z3)."""
from common import Evidence, Verdict
import aescampaign


def run(tier):
    ev, vd = Evidence("C04", tier), Verdict("C04", tier)
    aescampaign.run("C04", tier, ev, vd, only=("keyexp", "cbc"))
    ev.cov["outside_bounds"] += ["CBC lengths beyond the listed block counts (more trips through the same loops)", "len = 0 and len not a multiple of 16 (C08/C16)",
                                 "the C wrappers aes_keyexp.c / aes_cbc.c (C16) and cbc_pre.c"]
    ev.assume("AES round functions are uninterpreted (A, AL, D, DL, IMC, SB): the equalities hold for every interpretation, hence for the real S-box",
              "'CBC decryption inverts encryption' is FIPS-197's own theorem about the two ciphers; what is decided is that each direction equals its standard definition (equivalent inverse cipher for decryption)")
    return ev, vd
