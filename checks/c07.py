"""C07 - GCM streaming equals one-shot: the part within reach of the engine today is the init step
(asmsym symbolic execution + z3): every context field that update/finalize later read is defined by init."""
from common import Evidence, Verdict
import aescampaign


def run(tier):
    ev, vd = Evidence("C07", tier), Verdict("C07", tier)
    aescampaign.run("C07", tier, ev, vd, only=("gcminit",))
    ev.cov["outside_bounds"] += ["update / finalize / one-shot data paths: the GHASH value (carry-less multiplication by a symbolic hash key) is not decided, so 'streaming == one-shot' is established only for the state that init hands to the first update",
                                 "AAD lengths not listed"]
    ev.assume("decided for _aes_gcm_init_{128,256}_{sse,avx_gen2,avx_gen4,vaes_avx512} and every listed AAD length, for all keys / IVs / AAD bytes: aad_length = aad_len, in_length = 0, partial_block_length = 0, orig_IV = current_counter = IV || 0^31 1, no field depends on stale state (the AAD hash value itself is not compared with GHASH)",
              "pclmulqdq with two symbolic operands is an uninterpreted function")
    return ev, vd
