"""C07 - GCM streaming equals one-shot (asmsym symbolic execution + z3): init defines every context field that update /
finalize read; for every listed segmentation the bytes produced by init+update*+finalize and by the one-shot call are both
proved equal to in XOR E_K(inc32^i(J0)) (hence to each other).  The tag VALUE (GHASH) is not decided."""
from common import Evidence, Verdict
import aescampaign


def run(tier):
    ev, vd = Evidence("C07", tier), Verdict("C07", tier)
    aescampaign.run("C07", tier, ev, vd, only=("gcminit", "gcmstream", "gcmdata"))
    ev.cov["outside_bounds"] += ["the tag value: GHASH is carry-less multiplication by a symbolic hash key (uninterpreted here), so 'same tag' is NOT decided; what is decided for the tag is that exactly tag_len bytes are written and that it does not depend on stale state",
                                 "segmentations / lengths / AAD lengths not listed; the non-temporal variants"]
    ev.assume("decided for _aes_gcm_init_{128,256}_{sse,avx_gen2,avx_gen4,vaes_avx512} and every listed AAD length, for all keys / IVs / AAD bytes: aad_length = aad_len, in_length = 0, partial_block_length = 0, orig_IV = current_counter = IV || 0^31 1, no field depends on stale state (the AAD hash value itself is not compared with GHASH)",
              "pclmulqdq with two symbolic operands is an uninterpreted function")
    return ev, vd
