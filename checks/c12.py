"""C12 - dispatch binds only to code the CPU/OS can execute, one family per object (asmsym + z3, exhaustive)."""
import os, re, time, json
import z3
import common
from common import Evidence, Verdict, scratch
import libimage, symscalar
from elfobj import disassemble
from symscalar import cpuid_syms, XCR0

C1 = cpuid_syms(1, 0)
C7 = cpuid_syms(7, 0)


def bit(v, n):
    return z3.Extract(n, n, v) == 1


OSX = bit(C1[2], 27)
OS_YMM = z3.And(OSX, z3.Extract(2, 1, XCR0[0]) == 3)
OS_ZMM = z3.And(OS_YMM, z3.Extract(7, 5, XCR0[0]) == 7)
FEAT = {
    "SSE3": bit(C1[2], 0), "PCLMULQDQ": bit(C1[2], 1), "SSSE3": bit(C1[2], 9), "FMA": z3.And(bit(C1[2], 12), OS_YMM), "SSE4_1": bit(C1[2], 19), "SSE4_2": bit(C1[2], 20),
    "MOVBE": bit(C1[2], 22), "POPCNT": bit(C1[2], 23), "AES": bit(C1[2], 25), "OSXSAVE": OSX, "AVX": z3.And(bit(C1[2], 28), OS_YMM), "OS_YMM": OS_YMM, "OS_ZMM": OS_ZMM,
    "BMI1": bit(C7[1], 3), "AVX2": z3.And(bit(C7[1], 5), OS_YMM), "BMI2": bit(C7[1], 8), "AVX512F": z3.And(bit(C7[1], 16), OS_ZMM), "AVX512DQ": z3.And(bit(C7[1], 17), OS_ZMM),
    "ADX": bit(C7[1], 19), "AVX512IFMA": z3.And(bit(C7[1], 21), OS_ZMM), "AVX512CD": z3.And(bit(C7[1], 28), OS_ZMM), "SHA": bit(C7[1], 29),
    "AVX512BW": z3.And(bit(C7[1], 30), OS_ZMM), "AVX512VL": z3.And(bit(C7[1], 31), OS_ZMM), "AVX512VBMI": z3.And(bit(C7[2], 1), OS_ZMM), "AVX512VBMI2": z3.And(bit(C7[2], 6), OS_ZMM),
    "GFNI": bit(C7[2], 8), "VAES": bit(C7[2], 9), "VPCLMULQDQ": bit(C7[2], 10), "AVX512VNNI": z3.And(bit(C7[2], 11), OS_ZMM), "AVX512BITALG": z3.And(bit(C7[2], 12), OS_ZMM),
    "AVX512VPOPCNTDQ": z3.And(bit(C7[2], 14), OS_ZMM), "LZCNT": z3.BoolVal(True), "RDRAND": bit(C1[2], 30), "RDSEED": bit(C7[1], 18),
}
RAW = {"SSE3": bit(C1[2], 0), "SSSE3": bit(C1[2], 9), "SSE4_1": bit(C1[2], 19), "SSE4_2": bit(C1[2], 20), "AVX": bit(C1[2], 28), "AVX2": bit(C7[1], 5), "F": bit(C7[1], 16),
       "FMA": bit(C1[2], 12), "AES": bit(C1[2], 25), "PCLMUL": bit(C1[2], 1), "VAES": bit(C7[2], 9), "VPCLMUL": bit(C7[2], 10), "XSAVE": bit(C1[2], 26)}
imp = z3.Implies
CONSISTENT = z3.And(
    imp(RAW["SSE4_2"], RAW["SSE4_1"]), imp(RAW["SSE4_1"], RAW["SSSE3"]), imp(RAW["SSSE3"], RAW["SSE3"]),
    imp(RAW["AVX"], z3.And(RAW["SSE4_2"], RAW["XSAVE"])), imp(RAW["AVX2"], RAW["AVX"]), imp(RAW["FMA"], RAW["AVX"]), imp(RAW["F"], RAW["AVX2"]),
    *[imp(bit(C7[1], n), RAW["F"]) for n in (17, 21, 28, 30, 31)], *[imp(bit(C7[2], n), RAW["F"]) for n in (1, 6, 11, 12, 14)],
    imp(RAW["VAES"], z3.And(RAW["AES"], RAW["AVX"])), imp(RAW["VPCLMUL"], z3.And(RAW["PCLMUL"], RAW["AVX"])),
    imp(OSX, RAW["XSAVE"]), imp(OSX, bit(XCR0[0], 0)),
    imp(bit(XCR0[0], 2), z3.And(bit(XCR0[0], 1), RAW["AVX"])),
    z3.Or(z3.Extract(7, 5, XCR0[0]) == 0, z3.And(z3.Extract(7, 5, XCR0[0]) == 7, bit(XCR0[0], 2), RAW["F"])))

# The property quantifies over the feature bits the resolvers test.  Features that no resolver tests are assumed
# to be present whenever code using them is bound (listed in the evidence); AES entry points additionally
# assume their documented minimum ISA (aes_*.h: "@requires AES extensions and SSE4.1").
TESTED = {"SSE4_1", "SSE4_2", "OSXSAVE", "AVX", "AVX2", "OS_YMM", "OS_ZMM", "AVX512F", "AVX512DQ", "AVX512CD", "AVX512BW", "AVX512VL", "AVX512VBMI2", "GFNI", "VAES",
          "VPCLMULQDQ", "AVX512VNNI", "AVX512BITALG", "AVX512VPOPCNTDQ", "SHA"}
UNTESTED = sorted(set(FEAT) - TESTED)
AES_BASE = ["SSE4_1"]


def assumed_for(entry):
    """features assumed present for this entry point (untested ones are instead dropped from the requirement)"""
    if re.search(r"aes|XTS", entry):
        return list(AES_BASE)
    return []


GROUPS = [
    (r"^_(sha1|sha256|sha512|md5|sm3)_ctx_mgr_(init|submit|flush)$", lambda m: "hash manager " + m.group(1)),
    (r"^_aes_gcm_(precomp|init|enc|dec|enc_update|dec_update|enc_finalize|dec_finalize|enc_update_nt|dec_update_nt|enc_nt|dec_nt)_(128|256)(_update|_finalize)?(_nt)?$", lambda m: "gcm " + m.group(2)),
    (r"^_aes_gcm_(enc|dec)_(128|256)_(update|finalize)(_nt)?$", lambda m: "gcm " + m.group(2)),
    (r"^_(mh_sha1|mh_sha256|mh_sha1_murmur3_x64_128)_(update|finalize)$", lambda m: "multi-hash " + m.group(1)),
]


def group_of(entry):
    for pat, fn in GROUPS:
        m = re.match(pat, entry)
        if m:
            return fn(m)
    return None


FAMS = ["vaes_avx512", "avx512_ni", "avx512", "avx_gen4", "avx_gen2", "avx2", "avx", "sse_ni", "sb_sse4", "sse4", "sse", "base", "vaes", "00", "01", "02", "03", "04", "06", "x4", "x8"]


def family_of(entry, target):
    """implementation-family tag of a dispatch target: the family token in its name (the _nt suffix is not a family)"""
    toks = target
    best = None
    for f in FAMS:
        m = re.search(r"_%s(?=_|$)" % re.escape(f), toks)
        if m and (best is None or m.start() < best[0] or (m.start() == best[0] and len(f) > len(best[1]))):
            best = (m.start(), f)
    return best[1] if best else target


def model_str(m):
    out = {}
    names = {"cpuid_1_0_ecx": C1[2], "cpuid_1_0_eax": C1[0], "cpuid_7_0_ebx": C7[1], "cpuid_7_0_ecx": C7[2], "xcr0_eax": XCR0[0]}
    for n, v in names.items():
        out[n] = "0x%08x" % m.eval(v, model_completion=True).as_long()
    feats = [f for f, e in sorted(FEAT.items()) if z3.is_true(m.eval(e, model_completion=True)) and f not in ("LZCNT",)]
    out["available"] = feats
    return out


def run(tier):
    ev, vd = Evidence("C12", tier), Verdict("C12", tier)
    wd = scratch("c12")
    t0 = time.time()
    src, archive = common.build_lib(tag="c12lib")
    L = libimage.LibImage(archive, wd)
    ev.cov["library_instructions"] = L.ninsns
    ev.cov["objects"] = len(L.objs)
    req_cache = {}

    def req(sym):
        if sym in req_cache:
            return req_cache[sym]
        g = L.globals.get(sym)
        if g is None:
            req_cache[sym] = (None, "symbol %s not defined in the library" % sym, 0, None)
            return req_cache[sym]
        insns, indirect, unresolved = L.reachable(g)
        feats, first, bad = {}, {}, None
        for (o, sec, i) in insns:
            f = libimage.features_of(i)
            if f is None:
                bad = "%s:%s+0x%x %s %s" % (o.name, sec, i.addr, i.mnem, i.text)
                break
            for x in f:
                if x not in first:
                    first[x] = "%s:%s+0x%x  %s %s  [%s]" % (o.name, sec, i.addr, i.mnem, i.text, i.raw.hex())
        req_cache[sym] = (set(first), bad, len(insns), first)
        return req_cache[sym]

    nentries, npaths, nq = 0, 0, 0
    chosen = {}    # entry -> [(cond, target name)]
    for o in sorted([x for x in L.objs if "multibinary" in x.name], key=lambda x: x.name):
        insns, labels = disassemble(o.path)
        entries = sorted(s[:-len("_dispatch_init")] for s in labels if s.endswith("_dispatch_init"))
        # synthetic addresses for every symbol a lea may name
        symaddr, k = {}, 0x100000
        for i in insns.values():
            if i.mnem == "lea":
                for r in i.relocs:
                    s = r[2]
                    s = re.sub(r"[+-]0x[0-9a-f]+$", "", s)
                    if s not in symaddr:
                        symaddr[s] = k
                        k += 0x1000
        for n in labels:
            if n not in symaddr:
                symaddr[n] = k
                k += 0x1000
        addr2sym = {a: s for s, a in symaddr.items()}
        for e in entries:
            nentries += 1
            ex = symscalar.Exec(insns, labels, symaddr)
            try:
                paths = ex.run(labels[e + "_dispatch_init"])
            except symscalar.Violation as v:
                vd.violation("C12:%s:resolver:%s" % (e, str(v)[:60]), "%s: %s" % (e, v))
                continue
            except symscalar.Unsupported as u:
                vd.inconcl("%s: resolver not analysable: %s" % (e, u))
                continue
            nq += ex.queries
            ev.cov["solver_s"] += ex.solver_s
            npaths += len(paths)
            ev.add("states", len(paths))
            ev.add("transitions", sum(p.steps for p in paths))
            ev.extend_unique("functions_encoded", [e + "_dispatch_init"])
            ev.extend_unique("units", [o.name.replace(".o", ".asm")])
            conds = []
            for p in paths:
                st = [s for s in p.stores]
                tgt = [s for s in st if s[0] in (e + "_dispatched",) or (s[0] == ".data")]
                if len(st) != 1 or st[0][2] != 64:
                    vd.violation("C12:%s:stores" % e, "%s_dispatch_init: expected exactly one 8-byte store (the binding), found %s" % (e, [(s[0], s[1], s[2]) for s in st]))
                    continue
                dsym = o.elf.sym(e + "_dispatched")
                okdst = (st[0][0] == e + "_dispatched" and st[0][1] == 0) or (dsym is not None and st[0][0] == ".data" and st[0][1] == dsym.value)
                if not okdst:
                    vd.violation("C12:%s:store-target" % e, "%s_dispatch_init stores its choice to %s+%d instead of %s_dispatched" % (e, st[0][0], st[0][1], e))
                    continue
                val = z3.simplify(st[0][3])
                vars_ = set()

                def walk(t):
                    if z3.is_const(t) and t.decl().kind() == z3.Z3_OP_UNINTERPRETED:
                        vars_.add(t.decl().name())
                    for c in t.children():
                        walk(c)
                walk(val)
                stale = [v for v in vars_ if not (v.startswith("cpuid_") or v.startswith("xcr0_"))]
                if stale:
                    vd.violation("C12:%s:stale" % e, "%s: the binding depends on undefined state %s" % (e, stale[:3]))
                # frame: every GPR and the stack pointer restored (the stub falls through into the target)
                if p.sp != 0:
                    vd.violation("C12:%s:frame" % e, "%s_dispatch_init returns with rsp off by %d" % (e, p.sp))
                for r in symscalar.R64:
                    if r == "rsp":
                        continue
                    s = z3.Solver()
                    s.add(p.cond, p.regs[r] != ex.entry_regs[r])
                    nq += 1
                    if s.check() != z3.unsat:
                        vd.violation("C12:%s:clobber:%s" % (e, r), "%s_dispatch_init does not restore %s (the caller's arguments must survive the first call)" % (e, r))
                conds.append((p.cond, val))
            # candidate targets
            cands = sorted(set(addr2sym[a] for a in [symaddr[s] for s in symaddr] if a in addr2sym and addr2sym[a] not in labels or addr2sym[a] in labels))
            tsyms = []
            for i in insns.values():
                pass
            assumed = z3.And([FEAT[f] for f in assumed_for(e)] + [z3.BoolVal(True)])
            ch = []
            for tname, taddr in sorted(symaddr.items()):
                sel = z3.Or([z3.And(c, v == taddr) for c, v in conds] + [z3.BoolVal(False)])
                s = z3.Solver()
                s.add(CONSISTENT, assumed, sel)
                nq += 1
                if s.check() != z3.sat:
                    continue
                ch.append((sel, tname))
                feats, bad, n, first = req(tname)
                if feats is None:
                    vd.inconcl("%s -> %s: %s" % (e, tname, bad))
                    continue
                if bad:
                    vd.inconcl("%s -> %s: unclassifiable instruction %s" % (e, tname, bad))
                    continue
                ev.add("obligations", 1)
                unknown = [f for f in feats if f not in FEAT]
                if unknown:
                    vd.inconcl("%s -> %s: feature(s) %s have no availability predicate" % (e, tname, unknown))
                    continue
                feats = set(f for f in feats if f in TESTED)     # untested features: assumed to accompany the tested level
                need = z3.And([FEAT[f] for f in feats] + [z3.BoolVal(True)])
                s = z3.Solver()
                s.add(CONSISTENT, assumed, sel, z3.Not(need))
                nq += 1
                t1 = time.time()
                r = s.check()
                ev.cov["solver_s"] += time.time() - t1
                if r == z3.unknown:
                    vd.inconcl("%s -> %s: solver unknown" % (e, tname))
                elif r == z3.sat:
                    m = s.model()
                    missing = [f for f in sorted(feats) if not z3.is_true(m.eval(FEAT[f], model_completion=True))]
                    key = "C12:%s->%s:needs:%s" % (e, tname, "+".join(missing))
                    info = {"entry": e, "bound_to": tname, "missing_features": missing, "first_instruction_needing_it": {f: first[f] for f in missing}, "cpu": model_str(m),
                            "note": "z3 model of CPUID leaf 1/7 and XCR0 under the SDM consistency constraints; the offending instruction is quoted from the freshly built object"}
                    rp = common.save_replay("C12", key, info)
                    vd.violation(key, "%s binds to %s on a CPU/OS without %s (cpuid1.ecx=%s cpuid7.ebx=%s cpuid7.ecx=%s xcr0=%s); e.g. %s" % (
                        e, tname, "+".join(missing), info["cpu"]["cpuid_1_0_ecx"], info["cpu"]["cpuid_7_0_ebx"], info["cpu"]["cpuid_7_0_ecx"], info["cpu"]["xcr0_eax"], first[missing[0]]), rp)
                else:
                    ev.add("discharged", 1)
                    ev.sample({"entry": e, "target": tname, "requires": sorted(feats), "instructions_reachable": n, "verdict": "never bound without these features"}, limit=10)
            chosen[e] = (ch, assumed)
            # the stub: <entry>_dispatched initially points at <entry>_mbinit, which calls the resolver and falls into jmp [<entry>_dispatched]
            ds = o.elf.sym(e + "_dispatched")
            mi = labels.get(e + "_mbinit")
            okstub = False
            if ds is not None and mi is not None:
                rl = [r for r in o.elf.relocs.get(ds.shndx, []) if r.off == ds.value]
                i0 = insns.get(mi)
                if i0 is not None and i0.mnem == "endbr64":
                    mi += i0.size
                    i0 = insns.get(mi)
                i1 = insns.get(mi + i0.size) if i0 else None
                okstub = bool(rl) and i0 is not None and i0.mnem == "call" and i1 is not None and i1.mnem == "jmp" and "[rip" in i1.text
            if not okstub:
                vd.violation("C12:%s:stub" % e, "%s: first-call stub is not 'call resolver; jmp [%s_dispatched]' with the slot initialised to the stub" % (e, e))
    # group coherence
    groups = {}
    for e in chosen:
        g = group_of(e)
        if g:
            groups.setdefault(g, []).append(e)
    for g, es in sorted(groups.items()):
        es = sorted(es)
        for a in range(len(es)):
            for b in range(a + 1, len(es)):
                e1, e2 = es[a], es[b]
                for (s1, t1) in chosen[e1][0]:
                    for (s2, t2) in chosen[e2][0]:
                        f1, f2 = family_of(e1, t1), family_of(e2, t2)
                        if f1 == f2:
                            continue
                        s = z3.Solver()
                        s.add(CONSISTENT, chosen[e1][1], chosen[e2][1], s1, s2)
                        nq += 1
                        ev.add("obligations", 1)
                        if s.check() == z3.sat:
                            m = s.model()
                            key = "C12:group:%s:%s=%s/%s=%s" % (g, e1, f1, e2, f2)
                            rp = common.save_replay("C12", key, {"group": g, e1: t1, e2: t2, "cpu": model_str(m)})
                            vd.violation(key, "%s: %s binds to %s but %s binds to %s on the same CPU (cpuid7.ebx=%s cpuid7.ecx=%s xcr0=%s)" % (
                                g, e1, t1, e2, t2, model_str(m)["cpuid_7_0_ebx"], model_str(m)["cpuid_7_0_ecx"], model_str(m)["xcr0_eax"]), rp)
                        else:
                            ev.add("discharged", 1)
    # no other code writes a binding: every store/relocation against *_dispatched outside the resolvers
    for o in L.objs:
        for sec, d in o.sections.items():
            for i in d.values():
                if i.reloc_sym and i.reloc_sym.endswith("_dispatched") and not (i.mnem in ("jmp", "call") or (i.mnem == "mov" and "multibinary" in o.name)):
                    vd.violation("C12:foreign-access:%s" % i.reloc_sym, "%s: instruction '%s %s' outside the resolver touches %s" % (o.name, i.mnem, i.text, i.reloc_sym))
    ev.cov["queries"] = nq
    ev.cov["entry_points"] = nentries
    ev.cov["exhaustive"] = True
    ev.cov["bounds"] = {"cpuid_xcr0": "none: all 2^k assignments of CPUID leaf 1/7 and XCR0 decided symbolically", "resolver_paths": npaths}
    ev.cov["outside_bounds"] += ["32-bit, win64 and aarch64 builds", "indirect transfers inside targets other than other entry points' stubs"]
    ev.assume("architectural consistency of feature bits = the SDM dependencies listed in checks/c12.py (CONSISTENT)",
              "features that no resolver tests are assumed present: %s; AES entry points additionally assume SSE4.1 (aes_*.h '@requires AES extensions and SSE4.1')" % ", ".join(UNTESTED),
              "feature requirement of a target = union over all instructions reachable through direct calls/jumps in the freshly built library, classified by encoding (asmsym/libimage.py); an unclassifiable instruction makes the check inconclusive",
              "violations are reported from the solver model plus the offending instruction bytes of the built object; no native replay (CPUID cannot be changed natively without the optional hook)")
    if nentries != 64:
        ev.cov["note_entry_count"] = "expected 64 dispatched entry points, found %d" % nentries
    return ev, vd
