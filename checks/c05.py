"""C05 - mh_sha1 / mh_sha256 equal the multi-hash definition: CBMC on the real update / finalize / init glue of every family
(block kernels: asmsym part).  Harness: cbmc/mh_harness.c, cbmc/mh_shafinal_harness.c; runner: lib/mhglue.py."""
from common import Evidence, Verdict, scratch
import mhglue
import aescampaign


def run(tier):
    ev, vd = Evidence("C05", tier), Verdict("C05", tier)
    wd = scratch("c05")
    jobs = mhglue.mh_jobs([1, 2])
    jobs += mhglue.shafinal_jobs([1, 2], wd, tier)
    # outside the property's domain (totals >= 2^32): recorded as observations only
    jobs += [mhglue.mh_job(1, "base", 1, 0, beyond=True), mhglue.mh_job(1, "base", 2, 0, beyond=True)]
    if tier != "quick":
        for alg in (1, 2):
            for i, fam in enumerate(mhglue.FAMS):
                for k in range(1, len(mhglue.CTXOFFS)):
                    jobs += [mhglue.mh_job(alg, fam, 1, i * 2 + k), mhglue.mh_job(alg, fam, 2, i * 2 + k)]
    mhglue.run("C05", tier, jobs, ev, vd)
    # block kernels: the assembled mh_sha1 / mh_sha256 block functions of the four SIMD families, executed symbolically (asmsym):
    # every segment's interim digest == iterated standard compression over the words dealt to that segment
    aescampaign.run("C05", tier, ev, vd, only=("mhkernel",))
    ev.assume("block kernels: z3 proves, for all 16 segments, all incoming interim digests and all message bytes, digests' = compress*(digests, words of the segment) for %s per call; reads only the block bytes, writes only digests and the frame buffer" % ("one 1024-byte block" if tier == "quick" else "two 1024-byte blocks (mh_sha1) / one block (mh_sha256)"))
    ev.cov["bounds"].update(mhglue.MH_BOUNDS)
    ev.cov["bounds"]["final_hash_lengths"] = "the length the glue passes (320 / 512) and the padding boundaries 0,55,56,63,64,119,120" if tier == "quick" else "320 / 512 and every length 0..192"
    ev.cov["outside_bounds"] += [x for x in mhglue.MH_OUTSIDE if not x.startswith("the block kernels")] + ["block kernels: more than %d block(s) per call; the base C block function; the single-block SHA compression used by the final hash" % (1 if tier == "quick" else 2), "final hash over the segment digests: lengths other than the listed ones"]
    ev.extend_unique("stubs", mhglue.MH_STUBS + ["_sha1_single_for_mh_sha1 / sha256_single_for_mh_sha256 in the final-hash harness: logger (the definition line is renamed in a scratch copy of the file so that the calls reach the stub)",
                                                 "dispatched _mh_sha1_update/_finalize (multibinary.asm) in the public-wrapper scenario: recorder returning an arbitrary code"])
    ev.assume(*mhglue.MH_ASSUME)
    ev.assume("C05 = (this glue check) o (block kernels = 16 independent standard compressions over the round-robin dealt words: asmsym) o (final hash = standard SHA over the 16 segment digests: final-hash harness + single-block kernel); the composition is a paper argument")
    return ev, vd
