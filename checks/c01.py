"""C01 - multi-buffer digests equal the standard hash (context layer X part; K and M parts are added by asmsym)."""
from common import Evidence, Verdict
import ctxlayer


def run(tier):
    ev, vd = Evidence("C01", tier), Verdict("C01", tier)
    ctxlayer.run("C01", tier, [1, 4, 5], ev, vd)
    ev.assume("decomposition K (kernel) o M (manager) o X (context layer): this run decides X; the composition is a paper argument (DESIGN.md section 3)",
              "manager contract M: a submitted job is eventually handed back completed with digest = compress*(digest_in, job bytes); submit/flush return NULL or a held job",
              "idle-context invariant: partial_block_buffer_length == total_length mod B, incoming_buffer_length == 0; total_length < 2^60")
    ev.cov["outside_bounds"] += ["the assembly kernels and schedulers (K, M)", "the *_ctx_base.c single-buffer family (separate harness)"]
    return ev, vd
