"""C01 - multi-buffer digests equal the standard hash (context layer X part; K and M parts are added by asmsym)."""
from common import Evidence, Verdict
import ctxlayer, basectx
import aescampaign


def run(tier):
    ev, vd = Evidence("C01", tier), Verdict("C01", tier)
    ctxlayer.run("C01", tier, [1, 4, 5], ev, vd)
    basectx.run("C01", tier, ev, vd)       # portable base family (block stream of the real update/final code; compression function stubbed)
    # K: the multi-buffer kernels, executed symbolically on their assembled objects against the standard compression functions
    aescampaign.run("C01", tier, ev, vd, only=("hashkernel",))
    ev.assume("decomposition K (kernel) o M (manager) o X (context layer): this run decides X; the composition is a paper argument (DESIGN.md section 3)",
              "manager contract M: a submitted job is eventually handed back completed with digest = compress*(digest_in, job bytes); submit/flush return NULL or a held job",
              "idle-context invariant: partial_block_buffer_length == total_length mod B, incoming_buffer_length == 0; total_length < 2^60")
    ev.cov["outside_bounds"] += ["the assembly schedulers *_mb_mgr_{submit,flush}_*.asm (contract M is assumed)", "SHA-NI kernels (*_ni_x1/x2), *_opt_x1, sha512_sse4 and the base C kernels",
                                 "more than 1 (thorough: 2) block per kernel call", "the compression functions of the *_ctx_base.c single-buffer family (their block stream is decided)"]
    ev.assume("K: for each listed kernel and every lane, z3 proves digest' = compress(digest, block) (FIPS 180-4 SHA-1/256/512, RFC 1321, GB/T 32905) for all chaining values and message bytes via cut points on every round, data_ptr += block size, reads only the lane's block bytes; one run places a lane buffer across a 4 GiB boundary",
              "the same emulator in all-concrete mode reproduces hashlib digests on these kernels (tools / evidence note)")
    return ev, vd
