"""C15 - length accounting exact across 2^29 / 2^32 totals (slices of the context-layer induction step)."""
from common import Evidence, Verdict
import ctxlayer, basectx


def run(tier):
    ev, vd = Evidence("C15", tier), Verdict("C15", tier)
    sets = [()] if tier == "quick" else [(), ("-DMIN_TOTAL=(1ull<<29)",), ("-DMIN_TOTAL=(1ull<<32)",), ("-DMIN_TOTAL=((1ull<<32)+(1ull<<29))",)]
    ctxlayer.run("C15", tier, [1, 4, 5], ev, vd, extra_sets=sets)
    basectx.run("C15", tier, ev, vd, extra_sets=[()] if tier == "quick" else [(), ("-DMIN_TOTAL=(1ull<<32)",)])
    ev.assume("the running total is a free 64-bit value below 2^60 and each submit length a free 32-bit value, so every crossing of 2^29, 2^32, 2^32+2^29 at every residue is inside the quantified space; the thorough tier repeats the step with the total explicitly beyond each threshold",
              "digest correctness for such totals additionally needs K (kernels) and M (managers) for the block counts involved: block count per job < 2^26 is asserted at every manager call")
    return ev, vd
