"""C03 - AES-XTS equals IEEE 1619 incl. ciphertext stealing; expanded-key forms agree (asmsym + z3)."""
from common import Evidence, Verdict
import aescampaign


def run(tier):
    ev, vd = Evidence("C03", tier), Verdict("C03", tier)
    aescampaign.run("C03", tier, ev, vd, only=("xts",))
    ev.cov["outside_bounds"] += ["data units longer than the listed lengths (more trips through the same 8/16/32-block loops)", "the C wrappers in aes_xts.c (C13/C16)"]
    ev.assume("cut points: FIPS-197 round keys of both raw keys, E_K2(tweak) and each alpha-multiple of it are registered as specification terms; where the implementation produces a value with the same random-simulation signature z3 proves the two equal before the term is replaced by a shared symbol (the definitions are hypotheses of the final equalities)",
              "raw-key and expanded-key entry points are each proved equal to the standard, hence to each other")
    return ev, vd
