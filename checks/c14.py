"""C14 - SAFE_DATA: no key material left in vector registers or dead stack after AES calls (asmsym residue monitor + z3)."""
from common import Evidence, Verdict
import aescampaign


def run(tier):
    ev, vd = Evidence("C14", tier), Verdict("C14", tier)
    aescampaign.run("C14", tier, ev, vd, only=("keyexp", "cbc", "xts", "gcminit", "gcmdata", "gcmstream"))
    ev.cov["outside_bounds"] += ["GCM update / finalize / one-shot and precompute entry points (not yet executed by the engine)", "lengths outside the campaign's list", "general-purpose registers"]
    ev.assume("a 128-bit lane of zmm0-31 or a 16-byte window of stack written below the entry rsp is a residue when z3 proves it equal to a secret (raw key words, any round key of either schedule, E_K2(tweak), any 16-byte block of the GCM key data) for every key; prefiltered by random simulation",
              "the objects are assembled with the default flags of make.inc (-DSAFE_DATA)")
    return ev, vd
