"""C13 / C16 driver: generate harnesses per wrapper TU from the current sources, build goto
binaries with goto-cc (real flags), decide every harness with CBMC, replay counterexamples natively."""
import os, sys, subprocess, time, json, re
import common, cbmcrun, apigen
from common import VERIF, REPO, inc_flags, BASE_DEFS, Evidence, Verdict, scratch, run_jobs, save_replay
import api_domain as AD

CC_DEFS = ["-DNO_COMPAT_ISAL_CRYPTO_API_2_24"]


def _run(cmd, **kw):
    p = subprocess.run(cmd, capture_output=True, text=True, **kw)
    if p.returncode != 0:
        raise common.BuildError("command failed: %s\n%s" % (" ".join(cmd), (p.stdout + p.stderr)[-3000:]))
    return p


def build_tu(src, mode, wd, defines):
    text, harnesses, tu, remove = apigen.gen_tu(src, mode, defines)
    tag = src.replace("/", "_")[:-2]
    hc = os.path.join(wd, "h_%s.c" % tag)
    open(hc, "w").write(text)
    flags = inc_flags() + ["-I" + os.path.join(VERIF, "cbmc")] + BASE_DEFS + CC_DEFS + list(defines)
    real = os.path.join(wd, tag + ".real.gb")
    _run(["goto-cc", "-c"] + flags + [os.path.join(REPO, src), "-o", real])
    if remove:
        real2 = os.path.join(wd, tag + ".real2.gb")
        cmd = ["goto-instrument"]
        for r in remove:
            cmd += ["--remove-function-body", r]
        _run(cmd + [real, real2])
        real = real2
    hgb = os.path.join(wd, tag + ".h.gb")
    _run(["goto-cc", "-c"] + flags + [hc, "-o", hgb])
    sgb = os.path.join(wd, tag + ".s.gb")
    _run(["goto-cc", "-c"] + flags + [os.path.join(VERIF, "cbmc", "verif_support.c"), "-o", sgb])
    allgb = os.path.join(wd, tag + ".all.gb")
    _run(["goto-cc", real, hgb, sgb, "-o", allgb])
    wgb = os.path.join(wd, tag + ".hw.gb")
    _run(["goto-cc", "-c", "-DWITNESS"] + flags + [hc, "-o", wgb])
    allw = os.path.join(wd, tag + ".allw.gb")
    _run(["goto-cc", real, wgb, sgb, "-o", allw])
    return {"src": src, "harness_c": hc, "gb": allgb, "gbw": allw, "harnesses": harnesses, "remove": remove, "tu": tu, "defines": list(defines)}


def native_replay(b, fn, nd, wd):
    """Real wrapper TU compiled by gcc + the same stubs; counterexample draws fed through argv."""
    flags = inc_flags() + ["-I" + os.path.join(VERIF, "cbmc")] + BASE_DEFS + CC_DEFS + b["defines"]
    tag = os.path.basename(b["harness_c"])[:-2] + "_" + fn
    ro = os.path.join(wd, tag + ".real.o")
    try:
        _run(["gcc", "-c", "-O0", "-fno-inline", "-w"] + flags + [os.path.join(REPO, b["src"]), "-o", ro])
        for r in b["remove"]:
            _run(["objcopy", "--weaken-symbol=" + r, ro])
        exe = os.path.join(wd, tag + ".exe")
        _run(["gcc", "-O0", "-w", "-no-pie", "-Wl,--unresolved-symbols=ignore-all", "-DREPLAY", "-DHARNESS_FN=" + fn] + flags + [b["harness_c"], os.path.join(VERIF, "cbmc", "verif_support.c"),
              os.path.join(VERIF, "cbmc", "replay_main.c"), ro, "-o", exe])
    except common.BuildError as ex:
        return None, str(ex)
    try:
        q = subprocess.run([exe] + [str(v) for v in nd], capture_output=True, text=True, timeout=60)
    except subprocess.TimeoutExpired:
        return None, "timeout"
    out = (q.stdout + q.stderr)[-2000:]
    if q.returncode == 1 and "REPLAY-ASSERT-FAILED" in out:
        return True, out
    if q.returncode < 0:
        return True, "native run died with signal %d (dereference of an inaccessible argument)\n%s" % (-q.returncode, out)
    if q.returncode == 77:
        return None, out
    return False, out


def run(pid, mode, tier):
    ev = Evidence(pid, tier)
    vd = Verdict(pid, tier)
    wd = scratch(pid.lower())
    defines = ["-DFIPS_MODE"] if mode == "c13" else []
    found = apigen.discover_entry_points()
    unclassified = [e for e in found if e not in AD.API]
    missing = [e for e in AD.API if e not in found]
    for e in unclassified:
        vd.inconcl("entry point %s (%s) has no classification/domain in spec/api_domain.py" % (e, found[e]))
    for e in missing:
        vd.violation("%s:%s:missing" % (pid, e), "documented entry point %s is no longer defined" % e)
    srcs = []
    for e, s in AD.API.items():
        if s["src"] not in srcs and s["args"]:
            srcs.append(s["src"])
    builds = []
    for s in srcs:
        try:
            builds.append(build_tu(s, mode, wd, defines))
        except Exception as ex:
            vd.inconcl("could not build harness for %s: %s" % (s, str(ex)[-600:]))
    jobs = []
    for b in builds:
        for h in b["harnesses"]:
            jobs.append((b, h, False))
            jobs.append((b, h, True))

    def one(job):
        b, h, wit = job
        unwind = apigen.UNWIND.get(b["src"], 20)
        to = 900 if tier == "quick" else 3600
        if h["kind"] == "domain-reject" and not wit and unwind > 4:
            # a rejected call never enters the internal's loops: try a small bound first; the unwinding
            # assertions tell us if that was not enough (then the full bound is used)
            r = cbmcrun.run_cbmc([b["gb"]], function=h["fn"], unwind=4, timeout=to, want_trace=False, extra=["--slice-formula"])
            if r.status == "SUCCESS":
                return r
            if r.status == "FAILED":
                r2 = cbmcrun.run_cbmc([b["gb"]], function=h["fn"], unwind=4, timeout=to, want_trace=True)
                if r2.status == "FAILED":
                    return r2
        r = cbmcrun.run_cbmc([b["gbw"] if wit else b["gb"]], function=h["fn"], unwind=unwind, witness=wit, timeout=to, want_trace=False, extra=["--slice-formula"])
        if r.status == "FAILED" and not wit:
            r2 = cbmcrun.run_cbmc([b["gb"]], function=h["fn"], unwind=unwind, timeout=to, want_trace=True)   # unsliced: full trace for the replay
            if r2.status == "FAILED":
                r2.solver_s += r.solver_s
                r = r2
        return r

    t0 = time.time()
    res = run_jobs(jobs, one)
    nh = 0
    if os.environ.get("VERIF_DEBUG"):
        for (b, h, wit), r in sorted(zip(jobs, res), key=lambda x: -x[1].wall)[:15]:
            print("DEBUG %6.1fs %s wit=%s %s" % (r.wall, h["fn"], wit, r.status))
    for (b, h, wit), r in zip(jobs, res):
        ev.cov["solver_s"] += r.solver_s
        ev.add("queries", 1)
        if wit:
            if not (r.status == "FAILED" and any("WITNESS" in d for _, d, _, _ in r.failed)):
                vd.inconcl("vacuity guard: end of harness %s not reachable (%s %s)" % (h["fn"], r.status, r.msg[:200]))
            continue
        nh += 1
        ev.add("states", 1)
        ev.add("transitions", max(r.steps, 1))
        ev.add("obligations", r.nprops)
        ev.extend_unique("functions_encoded", [h["entry"]])
        if r.status == "SUCCESS":
            ev.add("discharged", r.nprops)
            ev.sample({"harness": h["fn"], "kind": h["kind"], "unit": b["src"], "properties_checked": r.nprops, "verdict": "SUCCESS", "cbmc_s": round(r.wall, 2)}, limit=8)
            for (pn, d) in r.pointer_overflow_only:
                ev.extend_unique("pointer_overflow_reports", ["%s: %s" % (h["fn"], d)])
            continue
        if r.status != "FAILED":
            vd.inconcl("%s: cbmc %s %s" % (h["fn"], r.status, r.msg[:300]))
            continue
        # counterexample(s): replay natively (tagged assertions first) until one reproduces
        cands = sorted(r.failed, key=lambda x: (not x[1].startswith(pid), x[1]))
        tried, ok, out, nd = set(), None, "", []
        for pn, desc, nd_, extras in cands:
            k = tuple(nd_)
            if k in tried:
                continue
            tried.add(k)
            ok, out = native_replay(b, h["fn"], nd_, wd)
            nd = nd_
            ev.add("traces_validated_against_impl", 1)
            if ok or len(tried) >= 4:
                break
        descs = sorted(set(d for _, d, _, _ in r.failed), key=lambda d: (not d.startswith(pid), d))
        if ok:
            key = descs[0] if descs[0].startswith(pid) else "%s:%s:%s" % (pid, h["entry"], descs[0])
            rp = save_replay(pid, key, {"harness": h["fn"], "unit": b["src"], "failed": descs, "nd_values": nd, "mode": mode,
                                         "native_replay": out[-800:], "cbmc_cmd": r.cmd})
            vd.violation(key, "%s: %s" % (h["entry"], "; ".join(descs)[:400]), rp)
        elif ok is False:
            vd.inconcl("%s: counterexample for '%s' did not reproduce natively (engine/stub problem): %s" % (h["fn"], descs[0], out[-300:]))
        else:
            vd.inconcl("%s: replay could not be run: %s" % (h["fn"], out[-300:]))
    ev.extend_unique("units", srcs)
    ev.cov["entry_points_discovered"] = len(found)
    ev.cov["harnesses"] = nh
    ev.cov["exhaustive"] = False
    ev.cov["bounds"] = {"unwind": apigen.UNWIND, "default_unwind": 20, "lengths": "all scalar arguments free over their full C type width", "pointers": "each pointer NULL / valid object of the documented size / dangling"}
    ev.cov["outside_bounds"] = ["behaviour of the `_`-prefixed internals (stubbed here; C01-C10)", "allocation failure"]
    ev.cov["stubs"] = ["every `_`-prefixed internal called by a wrapper: records reach count + argument tuple, returns an arbitrary value",
                       "isal_self_tests (C13 only): ghost state machine {not-run,passed,failed} per FIPS.md; the real one is checked under C17"]
    return ev, vd
