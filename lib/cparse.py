"""Tiny C prototype/definition extractor working on `gcc -E` output of the real translation
units (so macros and #ifdefs are resolved exactly as in the build)."""
import re, subprocess, os
from common import REPO, inc_flags, BASE_DEFS


def preprocess(src_rel, defines=(), repo=None):
    repo = repo or REPO
    cmd = ["gcc", "-E", "-P", "-DNO_COMPAT_ISAL_CRYPTO_API_2_24"] + inc_flags(repo) + BASE_DEFS + list(defines) + [os.path.join(repo, src_rel)]
    p = subprocess.run(cmd, capture_output=True, text=True)
    if p.returncode != 0:
        raise RuntimeError("gcc -E failed on %s: %s" % (src_rel, p.stderr[-1000:]))
    return p.stdout


class Func:
    def __init__(self, name, ret, params, is_def, body=None):
        self.name, self.ret, self.params, self.is_def, self.body = name, ret, params, is_def, body

    def __repr__(self):
        return "%s %s(%s)%s" % (self.ret, self.name, ", ".join("%s|%s" % p for p in self.params), " {..}" if self.is_def else ";")

    @property
    def pnames(self):
        return [p[1] for p in self.params]


_ID = r"[A-Za-z_]\w*"


def split_params(s):
    s = s.strip()
    if s == "" or s == "void":
        return []
    out, depth, cur = [], 0, ""
    for ch in s:
        if ch in "([":
            depth += 1
        elif ch in ")]":
            depth -= 1
        if ch == "," and depth == 0:
            out.append(cur)
            cur = ""
        else:
            cur += ch
    out.append(cur)
    res = []
    for i, p in enumerate(out):
        p = " ".join(p.split())
        # array suffixes
        m = re.match(r"^(.*?)(%s)\s*((\[[^\]]*\])*)$" % _ID, p)
        if m and m.group(1).strip() and m.group(2) not in ("int", "char", "long", "short", "unsigned", "void", "const"):
            ty, nm, arr = m.group(1).strip(), m.group(2), m.group(3)
            if arr:
                # T x[A][B] decays to T (*x)[B]
                dims = re.findall(r"\[([^\]]*)\]", arr)
                if len(dims) == 1:
                    ty = ty + " *"
                else:
                    ty = ty + " (*)" + "".join("[%s]" % d for d in dims[1:])
            res.append((ty, nm))
        else:
            m2 = re.match(r"^(.*)\(\s*\*\s*(%s)\s*\)\s*(\[.*\])$" % _ID, p)
            if m2:
                res.append((m2.group(1).strip() + " (*)" + m2.group(3), m2.group(2)))
            else:
                res.append((p, "a%d" % i))
    return res


def decl_of(ty, name):
    """C declarator for a (type, name) pair produced by split_params."""
    if "(*)" in ty:
        return ty.replace("(*)", "(*%s)" % name)
    return "%s %s" % (ty, name)


def functions(text):
    """All top-level function declarations and definitions in preprocessed text."""
    res = []
    # strip comments already gone; find `ret name(params)` followed by ; or {
    pat = re.compile(r"(?:^|[;}])\s*((?:(?:static|inline|extern|const|unsigned|signed|struct|enum|volatile|__inline|__extension__)\s+)*%s(?:\s+%s)*[\s\*]*?)\s*\b(%s)\s*\(((?:[^()]|\([^()]*\))*)\)\s*(?:__attribute__\s*\(\(.*?\)\)\s*)*([;{])" % (_ID, _ID, _ID), re.S)
    pos = 0
    while True:
        m = pat.search(text, pos)
        if not m:
            break
        ret, name, params, term = m.group(1), m.group(2), m.group(3), m.group(4)
        ret = " ".join(ret.split())
        body = None
        if term == "{":
            # find matching brace
            i = m.end()
            depth = 1
            while i < len(text) and depth:
                if text[i] == "{":
                    depth += 1
                elif text[i] == "}":
                    depth -= 1
                i += 1
            body = text[m.end():i - 1]
            pos = i - 1
        else:
            pos = m.end() - 1
        if ret.split()[0] in ("return", "typedef", "else", "if", "while", "for", "switch", "goto", "do", "sizeof") or name in ("if", "while", "for", "switch", "sizeof", "return"):
            continue
        if "typedef" in ret.split():
            continue
        res.append(Func(name, ret, split_params(params), term == "{", body))
    return res


def calls_in(body):
    return set(re.findall(r"\b(%s)\s*\(" % _ID, body or ""))
