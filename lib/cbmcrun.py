"""Run CBMC on a harness (real translation unit #included by the harness), classify the
result, extract the nondeterministic draws of a counterexample and replay them natively."""
import os, sys, json, re, subprocess, time, resource
from common import VERIF, REPO, inc_flags, BASE_DEFS

CBMC_FLAGS = ["--unwinding-assertions", "--bounds-check", "--pointer-check", "--pointer-overflow-check",
              "--signed-overflow-check", "--undefined-shift-check", "--drop-unused-functions",
              "--no-malloc-may-fail", "--div-by-zero-check", "--pointer-primitive-check"]
# the witness twin only asks "is the end of the harness reachable" -> no instrumentation needed
WITNESS_FLAGS = ["--no-standard-checks", "--drop-unused-functions", "--no-malloc-may-fail"]


def _limit(mem_gb):
    def f():
        b = int(mem_gb * (1 << 30))
        resource.setrlimit(resource.RLIMIT_AS, (b, b))
        os.setsid()
    return f


class Result:
    def __init__(self):
        self.status = "ERROR"       # SUCCESS | FAILED | UNWIND | TIMEOUT | ERROR | OOM
        self.failed = []             # [(property name, description, nd values, trace extras)]
        self.pointer_overflow_only = []
        self.nprops = 0
        self.wall = 0.0
        self.solver_s = 0.0
        self.vccs = 0
        self.steps = 0
        self.msg = ""
        self.cmd = ""


def run_cbmc(files, function="harness", defines=(), unwind=None, unwindset=None, extra=(), timeout=600,
             mem_gb=24, witness=False, repo=None, cwd=None, want_trace=True, backend=(), flags_override=None):
    repo = repo or REPO
    cmd = ["cbmc"] + list(files) + ["--function", function, "--json-ui"]
    cmd += inc_flags(repo) + ["-I" + os.path.join(VERIF, "cbmc")] + BASE_DEFS + ["-DNO_COMPAT_ISAL_CRYPTO_API_2_24"] + list(defines)
    if witness:
        cmd += ["-DWITNESS"] + WITNESS_FLAGS
    else:
        cmd += (flags_override if flags_override is not None else CBMC_FLAGS)
    if unwind is not None:
        cmd += ["--unwind", str(unwind)]
    if unwindset:
        cmd += ["--unwindset", ",".join("%s:%d" % (k, v) for k, v in unwindset.items())]
    if witness:
        cmd += ["--unwinding-assertions"] if False else []
    if want_trace:
        cmd += ["--trace"]
    cmd += list(backend) + list(extra)
    r = Result()
    r.cmd = " ".join(cmd)
    t0 = time.time()
    try:
        p = subprocess.run(cmd, capture_output=True, text=True, timeout=timeout, preexec_fn=_limit(mem_gb), cwd=cwd)
    except subprocess.TimeoutExpired as e:
        r.status = "TIMEOUT"
        r.wall = time.time() - t0
        subprocess.run(["pkill", "-x", "-P", "1", "cbmc"], capture_output=True) if False else None
        return r
    r.wall = time.time() - t0
    out = p.stdout
    try:
        data = json.loads(out)
    except Exception:
        r.status = "OOM" if ("bad_alloc" in (out + p.stderr) or p.returncode in (-6, -9, 134, 137)) else "ERROR"
        r.msg = (out[-1500:] + p.stderr[-1500:])
        return r
    results = None
    for x in data:
        if not isinstance(x, dict):
            continue
        if "result" in x:
            results = x["result"]
        mt = x.get("messageText", "")
        if x.get("messageType") == "ERROR":
            r.msg += mt + "\n"
        m = re.search(r"Runtime Solver: ([0-9.e+-]+)s", mt)
        if m:
            r.solver_s += float(m.group(1))
        m = re.search(r"Generated (\d+) VCC\(s\), (\d+) remaining", mt)
        if m:
            r.vccs = int(m.group(2))
        m = re.search(r"size of program expression: (\d+) steps", mt)
        if m:
            r.steps = int(m.group(1))
    if results is None:
        r.status = "ERROR"
        r.msg += out[-1500:]
        return r
    r.nprops = len(results)
    fails = [x for x in results if x.get("status") == "FAILURE"]
    if not fails:
        r.status = "SUCCESS"
        return r
    unw = [x for x in fails if ".unwind." in x["property"] or "recursion" in x["property"]]
    real = [x for x in fails if x not in unw]
    for x in real:
        nds = []
        extras = {}
        for s in x.get("trace", []):
            if s.get("stepType") == "assignment":
                lhs = s.get("lhs", "")
                v = s.get("value", {})
                if lhs == "nd_cur" and "binary" in v and not s.get("hidden", False):
                    if s.get("assignmentType") == "variable" or True:
                        nds.append(int(v["binary"], 2))
                elif lhs.startswith("cex_") and "binary" in v:
                    extras[lhs] = int(v["binary"], 2)
        desc = x.get("description", "")
        if "pointer arithmetic" in desc or "pointer_arithmetic" in x["property"]:
            r.pointer_overflow_only.append((x["property"], desc))
        else:
            r.failed.append((x["property"], desc, nds, extras))
    if r.failed:
        r.status = "FAILED"
    elif unw:
        r.status = "UNWIND"
        r.msg = ", ".join(u["property"] for u in unw[:5])
    else:
        r.status = "SUCCESS"   # pointer-overflow-only: reported separately
    return r


def native_replay(files, nd_values, defines=(), outdir=None, repo=None, function="harness", timeout=60):
    """Compile the same harness natively (-DREPLAY) with gcc and run it with the counterexample's
    nondeterministic draws.  Returns (reproduced: bool, output)."""
    repo = repo or REPO
    exe = os.path.join(outdir, "replay_" + os.path.basename(files[0]).replace(".c", ""))
    cmd = ["gcc", "-O0", "-g", "-w", "-no-pie", "-Wl,--unresolved-symbols=ignore-all", "-DREPLAY", "-DHARNESS_FN=" + function] + inc_flags(repo) + ["-I" + os.path.join(VERIF, "cbmc")] + \
        BASE_DEFS + ["-DNO_COMPAT_ISAL_CRYPTO_API_2_24"] + list(defines) + list(files) + [os.path.join(VERIF, "cbmc", "replay_main.c"), "-o", exe]
    p = subprocess.run(cmd, capture_output=True, text=True)
    if p.returncode != 0:
        return None, "replay build failed: " + p.stderr[-1500:]
    try:
        q = subprocess.run([exe] + [str(v) for v in nd_values], capture_output=True, text=True, timeout=timeout)
    except subprocess.TimeoutExpired:
        return None, "replay timeout"
    out = q.stdout[-3000:] + q.stderr[-1000:]
    if q.returncode == 1 and "REPLAY-ASSERT-FAILED" in out:
        return True, out
    if q.returncode == 77:
        return None, "replay hit a false assumption: " + out
    if q.returncode < 0 or q.returncode >= 128:
        return True, "replay crashed (signal): rc=%d %s" % (q.returncode, out)
    return False, out


def show_loops(files, defines=(), repo=None):
    repo = repo or REPO
    cmd = ["cbmc"] + list(files) + ["--show-loops"] + inc_flags(repo) + ["-I" + os.path.join(VERIF, "cbmc")] + BASE_DEFS + list(defines)
    p = subprocess.run(cmd, capture_output=True, text=True)
    return p.stdout


def build_gb(files, out, defines=(), repo=None, havoc_undefined=None):
    """goto-cc the harness with the build's flags; optionally give every still-undefined function matching
    the regex a body that havocs what its pointer parameters point to and returns an arbitrary value."""
    repo = repo or REPO
    cmd = ["goto-cc"] + inc_flags(repo) + ["-I" + os.path.join(VERIF, "cbmc")] + BASE_DEFS + ["-DNO_COMPAT_ISAL_CRYPTO_API_2_24"] + list(defines) + list(files) + ["-o", out]
    p = subprocess.run(cmd, capture_output=True, text=True)
    if p.returncode != 0:
        raise RuntimeError("goto-cc failed: " + (p.stdout + p.stderr)[-1500:])
    if havoc_undefined:
        out2 = out + ".b.gb"
        p = subprocess.run(["goto-instrument", "--generate-function-body", havoc_undefined, "--generate-function-body-options", "havoc,params:.*", out, out2],
                           capture_output=True, text=True)
        if p.returncode != 0:
            raise RuntimeError("goto-instrument failed: " + (p.stdout + p.stderr)[-1500:])
        return out2
    return out
