"""Entry point: ./check C13 --tier quick"""
import sys, os, argparse, importlib, traceback, json, time
HERE = os.path.dirname(os.path.abspath(__file__))
sys.path.insert(0, HERE)
sys.path.insert(0, os.path.join(HERE, "..", "spec"))
sys.path.insert(0, os.path.join(HERE, "..", "checks"))
sys.path.insert(0, os.path.join(HERE, "..", "asmsym"))


def main():
    ap = argparse.ArgumentParser()
    ap.add_argument("pid")
    ap.add_argument("--tier", default=os.environ.get("VERIF_TIER", "quick"), choices=["quick", "thorough"])
    ap.add_argument("--replay", default=None)
    a = ap.parse_args()
    pid = a.pid.upper()
    mod = importlib.import_module(pid.lower())
    if a.replay:
        return mod.replay(a.replay) if hasattr(mod, "replay") else generic_replay(a.replay)
    try:
        ev, vd = mod.run(a.tier)
    except Exception as ex:
        traceback.print_exc()
        print("INCONCLUSIVE property=%s internal error: %s" % (pid, ex))
        return 3
    return vd.finish(ev)


def generic_replay(path):
    d = json.load(open(path))
    print(json.dumps(d, indent=1)[:4000])
    return 0


if __name__ == "__main__":
    sys.exit(main())
