"""Context-layer harness runner (cbmc/ctx_harness.c) for the 29 multi-buffer *_ctx_<family>.c files.
Serves C01 (X), C06 (X), C11, C15, C08 (copy footprint), C20 (arbitrary hidden state)."""
import os, re, glob, subprocess, hashlib, json, time
import common, cbmcrun
from common import VERIF, REPO, inc_flags, BASE_DEFS, scratch, run_jobs

ALGS = {
    "sha1": dict(BS=64, PADF=8, LEN_LE=0, SM3SWAP=0, WORD="uint32_t", NWORDS=5),
    "sha256": dict(BS=64, PADF=8, LEN_LE=0, SM3SWAP=0, WORD="uint32_t", NWORDS=8),
    "sha512": dict(BS=128, PADF=16, LEN_LE=0, SM3SWAP=0, WORD="uint64_t", NWORDS=8),
    "md5": dict(BS=64, PADF=8, LEN_LE=1, SM3SWAP=0, WORD="uint32_t", NWORDS=4),
    "sm3": dict(BS=64, PADF=8, LEN_LE=0, SM3SWAP=1, WORD="uint32_t", NWORDS=8),
}
SCEN_NAME = {1: "submit", 2: "flush", 3: "wrapper-submit", 4: "resubmit", 5: "hash_pad"}
UNWIND = {1: 5, 2: 5, 3: 5, 4: 5, 5: 10}
CACHE = os.environ.get("VERIF_CACHE", "/var/tmp/verif-cache")


def ctx_files():
    out = []
    for f in sorted(glob.glob(os.path.join(REPO, "*_mb", "*_ctx_*.c"))):
        b = os.path.basename(f)
        if b.endswith("_base_aliases.c") or b.endswith("_ctx_base.c"):
            continue
        out.append(os.path.relpath(f, REPO))
    return out


def params(rel):
    b = os.path.basename(rel)[:-2]
    alg, fam = b.split("_ctx_")
    text = open(os.path.join(REPO, rel)).read()
    d = dict(ALGS[alg])
    d["ALG"] = alg.upper()
    d["CTXFILE"] = '"%s"' % rel
    d["HDR"] = '"%s_mb.h"' % alg
    d["FN_SUBMIT"] = "_%s_ctx_mgr_submit_%s" % (alg, fam)
    d["FN_FLUSH"] = "_%s_ctx_mgr_flush_%s" % (alg, fam)
    d["FN_RESUBMIT"] = "%s_ctx_mgr_resubmit" % alg
    ms = sorted(set(re.findall(r"\b(_\w+?_mgr_submit_\w+)\s*\(", text)) - {d["FN_SUBMIT"]})
    mf = sorted(set(re.findall(r"\b(_\w+?_mgr_flush_\w+)\s*\(", text)) - {d["FN_FLUSH"]})
    if len(ms) != 1 or len(mf) != 1:
        raise RuntimeError("%s: cannot identify the job-manager entry points (submit=%s flush=%s)" % (rel, ms, mf))
    d["MGR_SUBMIT"], d["MGR_FLUSH"] = ms[0], mf[0]
    d["LENSHIFT"] = 6 if (alg == "md5" and fam == "avx512") else 4
    d["alg"], d["fam"] = alg, fam
    return d


def _defs(d, scen, extra):
    keys = ["CTXFILE", "HDR", "ALG", "BS", "PADF", "LEN_LE", "SM3SWAP", "LENSHIFT", "WORD", "NWORDS", "FN_SUBMIT", "FN_FLUSH", "FN_RESUBMIT", "MGR_SUBMIT", "MGR_FLUSH"]
    out = ["-D%s=%s" % (k, d[k]) for k in keys] + ["-DSCEN=%d" % scen, "-DNDEBUG"]
    if scen == 5:
        out.append("-DREAL_HASH_PAD")
    if scen == 3:
        out += ['-DWRAPFILE="%s_mb/%s_mb.c"' % (d["alg"], d["alg"]), "-DISAL_SUBMIT=isal_%s_ctx_mgr_submit" % d["alg"], "-DDISPATCH_SUBMIT=_%s_ctx_mgr_submit" % d["alg"]]
    return out + list(extra)


def build(rel, scen, wd, extra=(), witness=False):
    d = params(rel)
    defs = _defs(d, scen, extra) + (["-DWITNESS"] if witness else [])
    flags = inc_flags() + ["-I" + os.path.join(VERIF, "cbmc"), "-I" + REPO] + BASE_DEFS + ["-DNO_COMPAT_ISAL_CRYPTO_API_2_24"] + defs
    tag = "%s_s%d%s%s" % (os.path.basename(rel)[:-2], scen, "w" if witness else "", hashlib.sha1(" ".join(extra).encode()).hexdigest()[:6])
    srcs = [os.path.join(VERIF, "cbmc", "ctx_harness.c"), os.path.join(VERIF, "cbmc", "verif_support.c")]
    # cache key: the exact preprocessed text of the encoding input + tool version + flags
    pp = subprocess.run(["gcc", "-E", "-P"] + flags + srcs[:1], capture_output=True, text=True)
    if pp.returncode != 0:
        raise common.BuildError("preprocessing %s failed: %s" % (rel, pp.stderr[-800:]))
    uw = UNWIND[scen]
    if d["SM3SWAP"]:
        uw = max(uw, 10)   # the digest byte-swap loop (8 words) sits inside the resubmit loop
    key = hashlib.sha1((pp.stdout + open(srcs[1]).read() + "|cbmc-6.11|v5-slice|unwind=%d|" % uw + " ".join(defs) + "|" + " ".join(cbmcrun.CBMC_FLAGS)).encode()).hexdigest()
    gb = os.path.join(wd, tag + ".gb")
    p = subprocess.run(["goto-cc"] + flags + srcs + ["-o", gb], capture_output=True, text=True)
    if p.returncode != 0:
        raise common.BuildError("goto-cc failed for %s scen %d: %s" % (rel, scen, (p.stdout + p.stderr)[-1500:]))
    if scen != 5:
        gb2 = os.path.join(wd, tag + ".r.gb")
        p = subprocess.run(["goto-instrument", "--replace-calls", "hash_pad:stub_hash_pad", gb, gb2], capture_output=True, text=True)
        if p.returncode != 0:
            raise common.BuildError("goto-instrument failed for %s: %s" % (rel, (p.stdout + p.stderr)[-800:]))
        gb = gb2
    return {"rel": rel, "scen": scen, "gb": gb, "key": key, "unwind": uw, "defs": defs, "flags": flags, "srcs": srcs, "params": d, "witness": witness, "extra": list(extra)}


def run_one(b, timeout):
    os.makedirs(CACHE, exist_ok=True)
    cf = os.path.join(CACHE, b["key"] + ".json")
    if os.path.exists(cf) and not os.environ.get("VERIF_NOCACHE"):
        try:
            d = json.load(open(cf))
            r = cbmcrun.Result()
            r.__dict__.update(d)
            r.failed = [tuple(x) for x in r.failed]
            r.cached = True
            return r
        except Exception:
            pass
    uw = b["unwind"]
    r = cbmcrun.run_cbmc([b["gb"]], function="harness", unwind=uw, witness=b["witness"], timeout=timeout, want_trace=False,
                         extra=["--slice-formula"])
    if r.status == "FAILED" and not b["witness"]:
        # counterexample: re-run unsliced so that the trace carries every nondeterministic draw
        r2 = cbmcrun.run_cbmc([b["gb"]], function="harness", unwind=uw, timeout=timeout, want_trace=True)
        if r2.status == "FAILED":
            r2.solver_s += r.solver_s
            r = r2
    r.cached = False
    if r.status in ("SUCCESS", "FAILED"):
        try:
            tmp = cf + ".%d" % os.getpid()
            json.dump(r.__dict__, open(tmp, "w"))
            os.replace(tmp, cf)
        except Exception:
            pass
    return r


def native_replay(b, nd, wd):
    exe = os.path.join(wd, "replay_%s_s%d" % (os.path.basename(b["rel"])[:-2], b["scen"]))
    cmd = ["gcc", "-O0", "-g", "-w", "-no-pie", "-Wl,--unresolved-symbols=ignore-all", "-DREPLAY", "-DHARNESS_FN=harness", "-DREAL_HASH_PAD", "-msse4.1"] + \
        [f for f in b["flags"] if f != "-DREAL_HASH_PAD"] + b["srcs"] + [os.path.join(VERIF, "cbmc", "replay_main.c"), "-o", exe]
    p = subprocess.run(cmd, capture_output=True, text=True)
    if p.returncode != 0:
        return None, "replay build failed: " + p.stderr[-1200:]
    try:
        q = subprocess.run([exe] + [str(v) for v in nd], capture_output=True, text=True, timeout=60)
    except subprocess.TimeoutExpired:
        return None, "replay timeout"
    out = (q.stdout + q.stderr)[-2000:]
    if q.returncode == 1 and "REPLAY-ASSERT-FAILED" in out:
        return True, out
    if q.returncode < 0:
        return True, "native run died with signal %d\n%s" % (-q.returncode, out)
    if q.returncode == 77:
        return None, out
    return False, out


def tags_of(desc):
    m = re.match(r"^((?:C\d\d,?)+):", desc)
    return m.group(1).split(",") if m else []


def run(pid, tier, scens, ev, vd, extra_sets=((),), files=None, quick_subset=None):
    """Run the scenarios on every ctx file; report failures whose tag list contains pid."""
    wd = scratch(pid.lower() + "x")
    files = files or ctx_files()
    jobs = []
    for rel in files:
        for sc in scens:
            for extra in extra_sets:
                if sc == 5 and extra:
                    continue
                for wit in (False, True):
                    jobs.append((rel, sc, tuple(extra), wit))
    timeout = 900 if tier == "quick" else 3600

    def one(j):
        rel, sc, extra, wit = j
        try:
            b = build(rel, sc, wd, extra, wit)
        except Exception as ex:
            return None, str(ex)
        return b, run_one(b, timeout)

    res = run_jobs(jobs, one)
    ncached = 0
    if os.environ.get("VERIF_DEBUG"):
        for j, (b, r) in sorted(zip(jobs, res), key=lambda x: -(x[1][1].wall if x[1][0] else 0))[:25]:
            if b:
                print("DEBUG %6.1fs %s scen=%d wit=%s %s" % (r.wall, j[0], j[1], j[3], r.status))
    for j, (b, r) in zip(jobs, res):
        rel, sc, extra, wit = j
        name = "%s/%s%s" % (rel, SCEN_NAME[sc], (" " + " ".join(extra)) if extra else "")
        if b is None:
            vd.inconcl("%s: %s" % (name, r[-400:]))
            continue
        ev.add("queries", 1)
        if getattr(r, "cached", False):
            ncached += 1
        else:
            ev.cov["solver_s"] += r.solver_s
        if wit:
            if not (r.status == "FAILED" and any("WITNESS" in d for _, d, _, _ in r.failed)):
                vd.inconcl("vacuity guard: end of harness not reachable for %s (%s %s)" % (name, r.status, r.msg[:200]))
            continue
        ev.add("states", 1)
        ev.add("transitions", max(r.steps, 1))
        ev.add("obligations", r.nprops)
        ev.extend_unique("units", [rel])
        ev.extend_unique("functions_encoded", [b["params"]["FN_SUBMIT"], b["params"]["FN_FLUSH"], b["params"]["FN_RESUBMIT"], "hash_pad"])
        if r.status == "SUCCESS":
            ev.add("discharged", r.nprops)
            ev.sample({"unit": rel, "scenario": SCEN_NAME[sc], "defines": list(extra), "properties_checked": r.nprops, "verdict": "SUCCESS", "cbmc_s": round(r.wall, 1)}, limit=6)
            continue
        if r.status != "FAILED":
            vd.inconcl("%s: cbmc %s %s" % (name, r.status, r.msg[:300]))
            continue
        mine = [(pn, d, nd, ex) for (pn, d, nd, ex) in r.failed if pid in tags_of(d)]
        untagged = [(pn, d, nd, ex) for (pn, d, nd, ex) in r.failed if not tags_of(d)]
        others = sorted(set(d for (_, d, _, _) in r.failed if tags_of(d) and pid not in tags_of(d)))
        if others:
            ev.extend_unique("failures_attributed_to_other_properties", ["%s: %s" % (name, o) for o in others[:6]])
        cand = mine or (untagged if not others else [])
        if not cand:
            continue
        pn, desc, nd, extras = cand[0]
        ok, out = native_replay(b, nd, wd)
        ev.add("traces_validated_against_impl", 1)
        descs = sorted(set(d for _, d, _, _ in cand))
        key = "%s:%s:%s:%s" % (pid, os.path.basename(rel)[:-2], SCEN_NAME[sc], re.sub(r"^[C\d,]+:", "", descs[0]))
        if ok:
            rp = common.save_replay(pid, key, {"unit": rel, "scenario": SCEN_NAME[sc], "defines": b["defs"], "failed": descs, "nd_values": nd,
                                               "native_replay": out[-800:], "cbmc_cmd": r.cmd})
            vd.violation(key, "%s [%s]: %s" % (rel, SCEN_NAME[sc], "; ".join(descs)[:500]), rp)
        elif ok is False:
            vd.inconcl("%s: counterexample for '%s' did not reproduce natively: %s" % (name, descs[0], out[-300:]))
        else:
            vd.inconcl("%s: replay could not be run for '%s': %s" % (name, descs[0], out[-300:]))
    ev.add("queries_cached", ncached)
    ev.cov["bounds"].update({"lengths": "none: total_length free 64-bit (< 2^60), len free 32-bit, flags free 32-bit, buffer alignment free",
                             "histories": "one inductive step per scenario from an arbitrary state satisfying the stated invariant",
                             "unwind": {SCEN_NAME[k]: v for k, v in UNWIND.items()}})
    ev.extend_unique("stubs", ["job manager submit/flush (contract M): checks each job against the stream model, returns NULL or a held context",
                               "memcpy_varlen: provenance logger (its own correctness: C08)",
                               "hash_pad: contract stub in scenarios 1-4, the real function is proved against the padding definition in scenario 5"])
    return ev, vd
