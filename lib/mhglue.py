"""Runner for the multi-hash glue harnesses (cbmc/mh_harness.c, cbmc/mh_shafinal_harness.c) and the memcpy_inline
harness (cbmc/c08_memcpy.c).  Serves C05 (mh_sha1 / mh_sha256 glue), C10 (mh_sha1_murmur3_x64_128 glue) and the C parts
of C08 (copy footprint of the glue, memcpy_inline.h helpers, rolling hash via cbmc/c09_harness.c).

A *job* is a dict {name, files, defines, unwind, backend, units, functions, observe}.  Every job is run twice: the check
and its -DWITNESS twin (vacuity guard).  A failed check is re-run unsliced with --trace, the failure is attributed to the
property whose id is in the tag list of the assertion text ("C05,C10:..."; untagged CBMC checks such as pointer
dereferences belong to the property that runs the job unless a tagged assertion of another property failed too), and is
replayed natively (-DREPLAY build of the same harness with the draws of the counterexample): only a reproduced failure
is a VIOLATION."""
import os, re, subprocess, hashlib
import common, cbmcrun
from common import VERIF, REPO, inc_flags, BASE_DEFS, scratch, run_jobs

HARNESS = os.path.join(VERIF, "cbmc", "mh_harness.c")
SHAFINAL = os.path.join(VERIF, "cbmc", "mh_shafinal_harness.c")
MEMCPY = os.path.join(VERIF, "cbmc", "c08_memcpy.c")
C09H = os.path.join(VERIF, "cbmc", "c09_harness.c")
SUPPORT = os.path.join(VERIF, "cbmc", "verif_support.c")

ALGS = {1: "mh_sha1", 2: "mh_sha256", 3: "mh_sha1_murmur3_x64_128"}
FAMS = ["base", "sse", "avx", "avx2", "avx512"]
SCEN = {1: "update", 2: "finalize", 3: "init", 4: "public-wrappers"}
CTXOFFS = [0, 8, 16, 24, 32, 40, 48, 56, 4, 60, 1, 63]
CADICAL = ["--sat-solver", "cadical"]

UNITS = {
    1: ["mh_sha1/mh_sha1.c", "mh_sha1/mh_sha1_avx512.c", "mh_sha1/mh_sha1_update_base.c", "mh_sha1/mh_sha1_finalize_base.c"],
    2: ["mh_sha256/mh_sha256.c", "mh_sha256/mh_sha256_avx512.c", "mh_sha256/mh_sha256_update_base.c", "mh_sha256/mh_sha256_finalize_base.c"],
    3: ["mh_sha1_murmur3_x64_128/mh_sha1_murmur3_x64_128.c", "mh_sha1_murmur3_x64_128/mh_sha1_murmur3_x64_128_avx512.c",
        "mh_sha1_murmur3_x64_128/mh_sha1_murmur3_x64_128_update_base.c", "mh_sha1_murmur3_x64_128/mh_sha1_murmur3_x64_128_finalize_base.c",
        "mh_sha1/mh_sha1.c", "mh_sha1/mh_sha1_avx512.c", "mh_sha1/mh_sha1_finalize_base.c"],
}


def _functions(alg, fam, scen):
    p = ALGS[alg]
    if scen == 1:
        f = ["_%s_update_%s" % (p, fam)]
        if alg == 3 and fam == "base":
            f.append("_mh_sha1_murmur3_x64_128_block_base")
        return f
    if scen == 2:
        tail = "_mh_sha1_tail_%s" % fam if alg != 2 else "_mh_sha256_tail_%s" % fam
        return ["_%s_finalize_%s" % (p, fam), tail]
    if scen == 3:
        return ["_%s_init" % p]
    return ["isal_%s_update" % p, "isal_%s_finalize" % p, "isal_%s_init" % p, "%s_update" % p, "%s_finalize" % p]


def mh_job(alg, fam, scen, idx=0, beyond=False):
    off = CTXOFFS[idx % len(CTXOFFS)]
    defs = ["-DALG=%d" % alg, "-DFAM=%s" % fam, "-DSCEN=%d" % scen, "-DCTXOFF=%d" % off] + (["-DBEYOND"] if beyond else [])
    name = "%s/%s/%s ctx@64k+%d%s" % (ALGS[alg], fam, SCEN[scen], off, " [totals >= 2^32: observation]" if beyond else "")
    return {"name": name, "files": [HARNESS, SUPPORT], "defines": defs, "unwind": 130, "backend": CADICAL, "units": UNITS[alg],
            "functions": _functions(alg, fam, scen), "observe": beyond, "alg": alg, "fam": fam, "scen": scen}


def mh_jobs(algs, scens=(1, 2), with_init=True, with_api=True):
    jobs, i = [], 0
    for alg in algs:
        for fam in FAMS:
            for sc in scens:
                jobs.append(mh_job(alg, fam, sc, i))
                i += 1
        if with_init:
            jobs.append(mh_job(alg, "base", 3, i))
            i += 1
        if with_api:
            jobs.append(mh_job(alg, "base", 4, i))
    return jobs


def shafinal_jobs(algs, wd, tier):
    """The final hash over the segment digests with the single-block compression stubbed.  The source is the tree's file with
    the one definition line of the single-block function renamed (checked: exactly one substitution)."""
    jobs = []
    for alg in algs:
        rel, fn = ("mh_sha1/sha1_for_mh_sha1.c", "_sha1_single_for_mh_sha1") if alg == 1 else ("mh_sha256/sha256_for_mh_sha256.c", "sha256_single_for_mh_sha256")
        text = open(os.path.join(REPO, rel)).read()
        new, n = re.subn(r"(?m)^%s\(const uint8_t \*data" % re.escape(fn), "real_single_block(const uint8_t *data", text)
        if n != 1:
            raise common.BuildError("%s: expected exactly one definition line of %s, found %d" % (rel, fn, n))
        out = os.path.join(wd, os.path.basename(rel)[:-2] + ".renamed.c")
        with open(out, "w") as f:
            f.write(new)
        lens = [None, 0, 55, 56, 63, 64, 119, 120] if tier == "quick" else [None] + list(range(0, 193))
        for ln in lens:
            defs = ["-DALG=%d" % alg, '-DSHAFILE="%s"' % out] + (["-DLENMODE=1"] if ln is None else ["-DLENMODE=3", "-DLEN=%d" % ln])
            jobs.append({"name": "%s len=%s" % (rel, "4*NW*16 (as the glue calls it)" if ln is None else ln), "files": [SHAFINAL, SUPPORT], "defines": defs,
                         "unwind": 130, "backend": [], "units": [rel], "functions": ["_sha1_for_mh_sha1" if alg == 1 else "sha256_for_mh_sha256"], "observe": False})
    return jobs


def c09_jobs(tier):
    ws = [1, 2, 3, 4] if tier == "quick" else [1, 2, 3, 4, 5, 6, 8]
    jobs = []
    for w in ws:
        n = w + 4
        jobs.append({"name": "rolling_hash2_run w=%d N=%d" % (w, n), "files": [C09H, SUPPORT], "defines": ["-DW=%d" % w, "-DN=%d" % n, "-I" + REPO, "-I" + os.path.join(VERIF, "spec")],
                     "unwind": w + n + 2, "backend": [], "units": ["rolling_hash/rolling_hash2.c"], "functions": ["_rolling_hash2_run", "_rolling_hash2_run_until_base"], "observe": False,
                     "no_ptr_overflow": True, "extra": ["--arrays-uf-always"]})
    return jobs


def memcpy_jobs(wd, tier):
    """memcpy_inline.h: one goto binary per helper (and its witness twin), one CBMC run per length (the length constant is a
    one-line translation unit linked to the binary)."""
    fns = {1: "memcpy_varlen", 2: "memcpy_fixedlen", 3: "memclr_varlen", 4: "memclr_fixedlen"}
    if tier == "quick":
        lens = {1: list(range(0, 65)) + [127, 128], 2: list(range(0, 65)) + [128], 3: list(range(0, 65)) + [128], 4: [0, 1, 8, 16, 20, 32, 64, 128]}
    else:
        lens = {k: list(range(0, 131)) for k in fns}

    def build(x):
        fn, wit = x
        out = os.path.join(wd, "memcpy_fn%d%s.gb" % (fn, "w" if wit else ""))
        return cbmcrun.build_gb([MEMCPY, SUPPORT], out, defines=["-DFN=%d" % fn] + (["-DWITNESS"] if wit else []))
    keys = [(fn, wit) for fn in fns for wit in (False, True)]
    gbs = dict(zip(keys, run_jobs(keys, build)))
    jobs = []
    for fn in fns:
        for n in lens[fn]:
            jobs.append({"name": "%s n=%d" % (fns[fn], n), "files": None, "memcpy": (fn, n), "gb": gbs[(fn, False)], "gbw": gbs[(fn, True)], "defines": ["-DFN=%d" % fn, "-DN=%d" % n],
                         "unwind": 6, "backend": [], "units": ["include/memcpy_inline.h"], "functions": [fns[fn].replace("_", "_sse_", 1)], "observe": False, "replay_files": [MEMCPY, SUPPORT]})
    return jobs


def _link_len(job, wd, wit):
    fn, n = job["memcpy"]
    p = os.path.join(wd, "len%d.gb" % n)
    if not os.path.exists(p):
        src = os.path.join(wd, "len%d.f%d%s.c" % (n, fn, "w" if wit else ""))
        with open(src, "w") as f:
            f.write("#include <stddef.h>\nconst size_t c08_n = %d;\n" % n)
        tmp = p + ".f%d%s" % (fn, "w" if wit else "")
        subprocess.run(["goto-cc", src, "-o", tmp], check=True, capture_output=True)
        os.replace(tmp, p)
    out = os.path.join(wd, "memcpy_fn%d_n%d%s.gb" % (fn, n, "w" if wit else ""))
    r = subprocess.run(["goto-cc", job["gbw"] if wit else job["gb"], p, "-o", out], capture_output=True, text=True)
    if r.returncode != 0:
        raise common.BuildError("linking the length constant failed: " + r.stderr[-500:])
    return out


MEMSAFE = re.compile(r"pointer_dereference|array_bounds|bounds|precondition|pointer_primitive")


def tags_of(desc):
    m = re.match(r"^((?:C\d\d,?)+):", desc)
    return m.group(1).split(",") if m else []


def run(pid, tier, jobs, ev, vd):
    wd = scratch(pid.lower() + "mh")
    timeout = 600 if tier == "quick" else 3600
    alljobs = [(j, False) for j in jobs] + [(j, True) for j in jobs if not j.get("observe")]

    def one(x):
        job, wit = x
        try:
            files = [_link_len(job, wd, wit)] if job.get("memcpy") else job["files"]
        except Exception as ex:
            r = cbmcrun.Result()
            r.msg = str(ex)
            return r
        flags = None
        if job.get("no_ptr_overflow") and not wit:
            flags = [f for f in cbmcrun.CBMC_FLAGS if f != "--pointer-overflow-check"]
        extra = list(job.get("extra", []))
        r = cbmcrun.run_cbmc(files, defines=job["defines"], unwind=job["unwind"], witness=wit, timeout=timeout, want_trace=False,
                             extra=["--slice-formula", "--verbosity", "8"] + extra, backend=job["backend"], flags_override=flags)
        if r.status == "FAILED" and not wit:
            # counterexample: re-run unsliced so that the trace carries every nondeterministic draw
            r2 = cbmcrun.run_cbmc(files, defines=job["defines"], unwind=job["unwind"], timeout=timeout, want_trace=True, extra=["--verbosity", "8"] + extra,
                                  backend=job["backend"], flags_override=flags)
            if r2.status == "FAILED":
                r2.solver_s += r.solver_s
                r = r2
        return r

    res = run_jobs(alljobs, one)
    if os.environ.get("VERIF_DEBUG"):
        for (job, wit), r in sorted(zip(alljobs, res), key=lambda x: -x[1].wall)[:15]:
            print("DEBUG %6.1fs %s wit=%s %s" % (r.wall, job["name"], wit, r.status))
    for (job, wit), r in zip(alljobs, res):
        name = job["name"]
        ev.add("queries", 1)
        ev.cov["solver_s"] += r.solver_s
        if wit:
            if not (r.status == "FAILED" and any("WITNESS" in d for _, d, _, _ in r.failed)):
                vd.inconcl("vacuity guard: end of harness not reachable for %s (%s %s)" % (name, r.status, r.msg[:200]))
            continue
        if job.get("observe"):
            # outside the property's domain: recorded, never part of the verdict
            ev.cov.setdefault("observations", []).append({"instance": name, "cbmc": r.status, "failed_assertions": sorted(set(d for _, d, _, _ in r.failed))[:12],
                                                          "nd_values": (r.failed[0][2] if r.failed else [])[:12]})
            continue
        ev.add("states", 1)
        ev.add("transitions", max(r.steps, 1))
        ev.add("obligations", r.nprops)
        ev.extend_unique("units", job["units"])
        ev.extend_unique("functions_encoded", job["functions"])
        if r.pointer_overflow_only:
            ev.extend_unique("pointer_overflow_only_(not_reproducible_natively,_reported_separately)", ["%s: %s" % (name, d) for _, d in r.pointer_overflow_only[:3]])
        if r.status == "SUCCESS":
            ev.add("discharged", r.nprops)
            ev.sample({"instance": name, "properties_checked": r.nprops, "verdict": "SUCCESS", "cbmc_s": round(r.wall, 1)}, limit=14)
            continue
        if r.status != "FAILED":
            vd.inconcl("%s: cbmc %s %s" % (name, r.status, r.msg[:300]))
            continue
        mine = [x for x in r.failed if pid in tags_of(x[1])]
        untagged = [x for x in r.failed if not tags_of(x[1])]
        others = sorted(set(x[1] for x in r.failed if tags_of(x[1]) and pid not in tags_of(x[1])))
        if others:
            ev.extend_unique("failures_attributed_to_other_properties", ["%s: %s" % (name, o) for o in others[:6]])
        cand = mine or (untagged if not others else [])
        if pid == "C08" and not mine:
            # memory-safety checks of CBMC itself (dereference, bounds, readable/writeable preconditions of the libc models) are C08's
            # business even when an assertion of another property fails on the same path
            cand = [x for x in untagged if MEMSAFE.search(x[0])] or cand
        if not cand:
            continue
        pn, desc, nd, extras = cand[0]
        rfiles = job.get("replay_files") or job["files"]
        ok, out = cbmcrun.native_replay(rfiles, nd, defines=job["defines"] + ["-msse4.1"], outdir=wd)
        ev.add("traces_validated_against_impl", 1)
        descs = sorted(set(x[1] for x in cand))
        key = "%s:%s:%s" % (pid, re.sub(r" ctx@64k\+\d+", "", name), re.sub(r"^[C\d,]+:", "", descs[0]))
        if ok:
            rp = common.save_replay(pid, key, {"instance": name, "defines": job["defines"], "failed": descs, "nd_values": nd, "native_replay": out[-800:], "cbmc_cmd": r.cmd})
            vd.violation(key, "%s: %s" % (name, "; ".join(descs)[:500]), rp)
        elif ok is False:
            vd.inconcl("%s: counterexample for '%s' did not reproduce natively: %s" % (name, descs[0], out[-300:]))
        else:
            vd.inconcl("%s: replay could not be run for '%s': %s" % (name, descs[0], out[-300:]))
    return ev, vd


MH_STUBS = ["block functions _<alg>_block_{base,sse,avx,avx2,avx512} (assembly / block_base.c): logger of (ptr, num_blocks) checking stream order, frame buffer, chaining value; kernels themselves: asmsym part of C05/C10",
            "memcpy / memset of the glue on the partial block buffer: provenance loggers (bounds asserted under C08); in finalize the clear is applied to one arbitrary tracked byte position",
            "_sha1_for_mh_sha1 / sha256_for_mh_sha256: returns fresh values that must arrive in the caller's buffer; its own block loop + padding: cbmc/mh_shafinal_harness.c with the single-block compression stubbed"]
MH_ASSUME = ["invariant assumed on entry and re-established on exit of update: partial_block_buffer[0 .. total_length mod 1024) holds the last total_length mod 1024 stream bytes, all earlier bytes were handed to the block function in order (murmur: to the stitched block function as well)",
             "any segmentation follows by induction over calls from the one step (init establishes the invariant: scenario init); the induction itself is a paper step",
             "stream totals < 2^32 as in the property (T0 + len < 2^32 for update, total < 2^32 for finalize); what happens beyond is recorded under coverage.observations, not in the verdict",
             "the caller's buffer is an object of exactly len bytes at an arbitrary 0..63 offset that is never dereferenced by the glue; the context sits at a fixed offset (varied over the instances) from a 64-byte boundary"]
MH_BOUNDS = {"lengths": "none inside the domain: total_length free 64-bit below 2^32, len free 32-bit with total+len < 2^32, every fill level 0..1023, every padding byte position (one arbitrary tracked index)",
             "histories": "one inductive step per scenario", "context_alignment_offsets": CTXOFFS, "unwind": 130}
MH_OUTSIDE = ["stream totals >= 2^32 (see coverage.observations)", "the block kernels and the single-block SHA compression (asmsym part)", "context alignments other than the listed offsets (one offset per instance)"]
