"""Base-family context step (cbmc/basectx_harness.c) for the five portable *_ctx_base.c files.
Serves C15 (length accounting / padding of the exact total), C01 (block stream), C11 (rejection), C20."""
import os, re, subprocess, time
import common, cbmcrun, ctxlayer
from common import VERIF, REPO, inc_flags, BASE_DEFS, scratch, run_jobs

ALGS = ["md5", "sha1", "sha256", "sha512", "sm3"]
# the caller's buffer is a 1-byte object used for address arithmetic only: pointer-overflow checking is off (as in ctx_harness.c)
FLAGS = [f for f in cbmcrun.CBMC_FLAGS if f != "--pointer-overflow-check"]


def _flags(alg, extra=()):
    d = dict(ctxlayer.ALGS[alg])
    defs = ["-DMAXLEN=(2*BS+7)", "-DALG=%s" % alg.upper(), '-DCTXFILE="%s_mb/%s_ctx_base.c"' % (alg, alg), '-DHDR="%s_mb.h"' % alg, "-DBS=%d" % d["BS"], "-DPADF=%d" % d["PADF"],
            "-DLEN_LE=%d" % d["LEN_LE"], "-DSM3SWAP=%d" % d["SM3SWAP"], "-DWORD=%s" % d["WORD"], "-DNWORDS=%d" % d["NWORDS"], "-DFN_SUBMIT=_%s_ctx_mgr_submit_base" % alg, "-DNDEBUG"] + (["-DDATAQ=volatile"] if alg == "sm3" else []) + list(extra)
    return inc_flags() + ["-I" + os.path.join(VERIF, "cbmc"), "-I" + REPO] + BASE_DEFS + ["-DNO_COMPAT_ISAL_CRYPTO_API_2_24"] + defs


def build(alg, wd, extra=(), witness=False):
    flags = _flags(alg, extra) + (["-DWITNESS"] if witness else [])
    srcs = [os.path.join(VERIF, "cbmc", "basectx_harness.c"), os.path.join(VERIF, "cbmc", "verif_support.c")]
    gb = os.path.join(wd, "base_%s%s%d.gb" % (alg, "w" if witness else "", abs(hash(tuple(extra))) % 9999))
    p = subprocess.run(["goto-cc"] + flags + srcs + ["-o", gb], capture_output=True, text=True)
    if p.returncode != 0:
        raise common.BuildError("goto-cc failed for %s base: %s" % (alg, (p.stdout + p.stderr)[-1500:]))
    gb2 = gb[:-3] + ".r.gb"
    p = subprocess.run(["goto-instrument", "--replace-calls", "%s_single:stub_single" % alg, gb, gb2], capture_output=True, text=True)
    if p.returncode != 0:
        raise common.BuildError("goto-instrument --replace-calls failed for %s base: %s" % (alg, (p.stdout + p.stderr)[-800:]))
    return gb2


def native_replay(alg, nd, wd, extra=()):
    """the compression function of a scratch copy is renamed so that the calls bind to the logger"""
    src = open(os.path.join(REPO, "%s_mb/%s_ctx_base.c" % (alg, alg))).read()
    src2, n = re.subn(r"(?m)^%s_single\(" % alg, "%s_single_REAL(" % alg, src)
    if n < 1:
        return None, "cannot rename %s_single in a scratch copy" % alg
    cp = os.path.join(wd, "%s_ctx_base_replay.c" % alg)
    open(cp, "w").write("#define %s_single stub_single\n#define %s_single_REAL unused_real_single\n" % (alg, alg) + src2)
    # prototype / definition now carry the name unused_real_single; calls expand to stub_single
    flags = [f for f in _flags(alg, extra) if not f.startswith("-DCTXFILE=")] + ['-DCTXFILE="%s"' % cp]
    exe = os.path.join(wd, "replay_base_%s" % alg)
    cmd = ["gcc", "-O0", "-g", "-w", "-no-pie", "-DREPLAY", "-DHARNESS_FN=harness"] + flags + \
        [os.path.join(VERIF, "cbmc", "basectx_harness.c"), os.path.join(VERIF, "cbmc", "verif_support.c"), os.path.join(VERIF, "cbmc", "replay_main.c"), "-o", exe]
    p = subprocess.run(cmd, capture_output=True, text=True)
    if p.returncode != 0:
        return None, "replay build failed: " + p.stderr[-1200:]
    try:
        q = subprocess.run([exe] + [str(v) for v in nd], capture_output=True, text=True, timeout=60)
    except subprocess.TimeoutExpired:
        return None, "replay timeout"
    out = (q.stdout + q.stderr)[-2000:]
    if q.returncode == 1 and "REPLAY-ASSERT-FAILED" in out:
        return True, out
    if q.returncode < 0:
        return True, "native run died with signal %d\n%s" % (-q.returncode, out)
    if q.returncode == 77:
        return None, out
    return False, out


def _cached(gb_key, fn):
    import json
    os.makedirs(ctxlayer.CACHE, exist_ok=True)
    cf = os.path.join(ctxlayer.CACHE, "base_" + gb_key + ".json")
    if os.path.exists(cf) and not os.environ.get("VERIF_NOCACHE"):
        try:
            d = json.load(open(cf))
            r = cbmcrun.Result()
            r.__dict__.update(d)
            r.failed = [tuple(x) for x in r.failed]
            return r
        except Exception:
            pass
    r = fn()
    if r.status in ("SUCCESS", "FAILED"):
        try:
            tmp = cf + ".%d" % os.getpid()
            json.dump(r.__dict__, open(tmp, "w"))
            os.replace(tmp, cf)
        except Exception:
            pass
    return r


def _key(alg, extra, what):
    import hashlib
    flags = _flags(alg, extra)
    pp = subprocess.run(["gcc", "-E", "-P"] + flags + [os.path.join(VERIF, "cbmc", "basectx_harness.c")], capture_output=True, text=True)
    if pp.returncode != 0:
        raise common.BuildError("preprocessing base harness for %s failed: %s" % (alg, pp.stderr[-500:]))
    return hashlib.sha1((pp.stdout + open(os.path.join(VERIF, "cbmc", "verif_support.c")).read() + "|cbmc-6.11|base-v1|" + what + "|" + " ".join(FLAGS)).encode()).hexdigest()


def run(pid, tier, ev, vd, extra_sets=None, timeout=900):
    """quick: md5/sha1/sha256/sm3 full step; thorough adds sha512 without finalisation (its LAST step gives no verdict within the budget: stated)"""
    wd = scratch(pid.lower() + "base")
    if extra_sets is None:
        extra_sets = [()]
    jobs = [(a, tuple(x)) for a in ALGS if a != "sha512" for x in extra_sets]
    if tier != "quick":
        jobs.append(("sha512", ("-DNO_LAST",)))
        timeout = 1800

    def one(j):
        alg, extra = j
        try:
            gb = build(alg, wd, extra)
            gbw = build(alg, wd, extra, witness=True)
        except common.BuildError as ex:
            return (j, None, None, str(ex))
        uw = 2 * ctxlayer.ALGS[alg]["BS"] + 2
        uws = {"%s_update.0" % alg: 6}      # the block loop: len <= 2*BS+7 (+ carried) completes at most 3 blocks; unwinding assertions guard both

        def main():
            r = cbmcrun.run_cbmc([gb], unwind=uw, unwindset=uws, timeout=timeout, want_trace=False, extra=["--slice-formula"], flags_override=FLAGS)
            if r.status == "FAILED":
                r2 = cbmcrun.run_cbmc([gb], unwind=uw, unwindset=uws, timeout=timeout, want_trace=True, flags_override=FLAGS)
                if r2.status == "FAILED":
                    r2.solver_s += r.solver_s
                    r = r2
            return r
        try:
            k = _key(alg, extra, "uw%d" % uw)
        except common.BuildError as ex:
            return (j, None, None, str(ex))
        r = _cached(k, main)
        w = _cached(k + "w", lambda: cbmcrun.run_cbmc([gbw], unwind=uw, unwindset=uws, timeout=timeout, witness=True, want_trace=False))
        return (j, r, w, None)

    for (j, r, w, err) in run_jobs(jobs, one):
        alg, extra = j
        name = "%s_mb/%s_ctx_base.c%s" % (alg, alg, (" " + " ".join(extra)) if extra else "")
        ev.extend_unique("units", ["%s_mb/%s_ctx_base.c" % (alg, alg)])
        ev.extend_unique("functions_encoded", ["_%s_ctx_mgr_submit_base" % alg, "%s_init/%s_update/%s_final (static, real)" % (alg, alg, alg)])
        if err:
            vd.inconcl("%s: %s" % (name, err[-300:]))
            continue
        ev.add("queries", 2)
        ev.add("solver_s", r.solver_s + (w.solver_s if w else 0))
        ev.add("states", r.steps or 0)
        if w is None or w.status != "FAILED":
            vd.inconcl("%s: reachability witness did not fail (%s): harness vacuous?" % (name, w.status if w else "?"))
            continue
        if r.status == "SUCCESS":
            ev.add("transitions", r.nprops)
            ev.sample("base %s: %d properties proved, solver %.1fs" % (name, r.nprops, r.solver_s))
            continue
        if r.status != "FAILED":
            vd.inconcl("%s: %s %s" % (name, r.status, (r.msg or "")[:200]))
            continue
        for (prop, desc, nd, extras) in r.failed:
            tags = ctxlayer.tags_of(desc)
            if tags and pid not in tags:
                continue
            ok, out = native_replay(alg, nd, wd, extra)
            if ok is False:
                vd.inconcl("%s: counterexample for '%s' did not reproduce natively (encoding issue?)" % (name, desc))
                continue
            if ok:
                ev.add("traces_validated_against_impl", 1)
            key = "%s:base:%s:%s" % (pid, alg, desc.split(":")[-1].strip()[:60])
            what = "%s: %s%s" % (name, desc, "" if ok else " (native replay not available: %s)" % (out or "")[:80])
            rp = common.save_replay(pid, key, {"what": what, "draws": nd, "unit": name, "replay": "gcc -DREPLAY build of cbmc/basectx_harness.c with these draws as argv", "native_output": (out or "")[-600:]})
            vd.violation(key, what, rp)
    ev.extend_unique("outside_bounds", ["base family: sha512_ctx_base.c finalisation (LAST) - no solver verdict within 500 s; its non-final steps are decided in the thorough tier only",
                                         "base family: len per call above 2*block+7 bytes; what <alg>_single computes"])
    ev.cov["bounds"]["base_family_len_per_call"] = "<= 2*block+7 bytes (0..3 blocks completed per call), total: free 64-bit value < 2^60"
    ev.assume("base family: the compression function <alg>_single is replaced by a logging stub (what it computes is outside this check); a context is either initialised by isal_hash_ctx_init (status COMPLETE, rest arbitrary) or in a state the base family leaves behind (IDLE/COMPLETE, partial length = total mod block)")
    ev.extend_unique("stubs", ["<alg>_single -> stub_single (logs the block, returns a fresh chaining token)"])
