"""Shared plumbing for the /verif checks: scratch dirs, builds from /repo's working
tree, evidence files, known findings, verdict reporting, parallel job running."""
import os, sys, json, time, shutil, subprocess, tempfile, atexit, hashlib, signal
from concurrent.futures import ThreadPoolExecutor, as_completed

VERIF = os.path.dirname(os.path.dirname(os.path.abspath(__file__)))
REPO = os.environ.get("VERIF_REPO", "/repo")
SEED = int(os.environ.get("VERIF_SEED", "1") or "1")
NPROC = int(os.environ.get("VERIF_JOBS", str(os.cpu_count() or 8)))
GUARD = "ISAL_CRYPTO_VERIF"

INC_DIRS = ["", "sha1_mb", "sha256_mb", "sha512_mb", "md5_mb", "mh_sha1",
            "mh_sha1_murmur3_x64_128", "mh_sha256", "rolling_hash", "sm3_mb", "fips",
            "misc", "aes", "include", "intel-ipsec-mb/lib"]
BASE_DEFS = ["-DSAFE_DATA", "-DSAFE_PARAM", "-DAS_FEATURE_LEVEL=10"]

_scratch_dirs = []


def scratch(tag="w"):
    base = os.environ.get("VERIF_SCRATCH", "/var/tmp")
    os.makedirs(base, exist_ok=True)
    d = tempfile.mkdtemp(prefix="verif.%s.%d." % (tag, os.getpid()), dir=base)
    _scratch_dirs.append(d)
    return d


def _cleanup():
    for d in _scratch_dirs:
        shutil.rmtree(d, ignore_errors=True)


atexit.register(_cleanup)
for _s in (signal.SIGTERM, signal.SIGINT):
    try:
        signal.signal(_s, lambda *a: sys.exit(130))
    except Exception:
        pass


def inc_flags(repo=None):
    repo = repo or REPO
    return ["-I" + os.path.join(repo, d) + "/" for d in INC_DIRS]


def nasm_obj(src_rel, outdir, extra=(), repo=None):
    """Assemble one NASM source of the current tree with the flags of Makefile.unx."""
    repo = repo or REPO
    out = os.path.join(outdir, os.path.basename(src_rel)[:-4] + ".o")
    cmd = ["nasm", "-f", "elf64", "-DINTEL_CET_ENABLED", "-D", "NDEBUG"] + inc_flags(repo) + \
        BASE_DEFS + list(extra) + ["-o", out, os.path.join(repo, src_rel)]
    r = subprocess.run(cmd, capture_output=True, text=True, cwd=repo)
    if r.returncode != 0:
        raise BuildError("nasm failed for %s:\n%s" % (src_rel, r.stderr[-2000:]))
    return out


def gcc_obj(src_rel, outdir, extra=(), repo=None, opt="-O2"):
    repo = repo or REPO
    out = os.path.join(outdir, os.path.basename(src_rel)[:-2] + ".o")
    cmd = ["gcc", "-c", opt, "-fcf-protection=full", "-DNO_COMPAT_ISAL_CRYPTO_API_2_24", "-DNDEBUG"] + inc_flags(repo) + \
        BASE_DEFS + list(extra) + ["-o", out, os.path.join(repo, src_rel)]
    r = subprocess.run(cmd, capture_output=True, text=True, cwd=repo)
    if r.returncode != 0:
        raise BuildError("gcc failed for %s:\n%s" % (src_rel, r.stderr[-2000:]))
    return out


class BuildError(Exception):
    pass


def build_lib(defines=(), tag="lib"):
    """rsync the working tree to scratch and build bin/isa-l_crypto.a with Makefile.unx.
    Returns (scratch_root, path_to_archive)."""
    d = scratch(tag)
    src = os.path.join(d, "src")
    subprocess.run(["rsync", "-a", "--exclude", ".git", "--exclude", "*.o", "--exclude", "*.lo",
                    "--exclude", ".libs", "--exclude", "bin", "--exclude", "*.la", "--exclude", "*.trs",
                    "--exclude", "*.log", "--exclude", "autom4te.cache", "--exclude", "*_test", "--exclude", "*_perf",
                    REPO + "/", src + "/"], check=True)
    env = dict(os.environ)
    cmd = ["make", "-f", "Makefile.unx", "-j%d" % NPROC, "lib"]
    if defines:
        cmd.append("DEFINES=" + " ".join(defines))
    r = subprocess.run(cmd, cwd=src, capture_output=True, text=True, env=env)
    a = os.path.join(src, "bin", "isa-l_crypto.a")
    if r.returncode != 0 or not os.path.exists(a):
        raise BuildError("library build failed:\n" + (r.stdout[-1500:] + r.stderr[-3000:]))
    return src, a


def repo_state():
    """A short description of the tree the check ran on (HEAD + dirty hash)."""
    try:
        head = subprocess.run(["git", "-C", REPO, "rev-parse", "--short", "HEAD"], capture_output=True, text=True).stdout.strip()
        diff = subprocess.run(["git", "-C", REPO, "diff", "HEAD"], capture_output=True).stdout
        return {"head": head, "dirty": bool(diff), "diff_sha1": hashlib.sha1(diff).hexdigest()[:12] if diff else ""}
    except Exception:
        return {}


# ---------------------------------------------------------------- known findings
def load_known():
    p = os.path.join(VERIF, "known_findings.json")
    if not os.path.exists(p):
        return []
    return json.load(open(p)).get("findings", [])


class Verdict:
    """Collects violations / inconclusives of one check run and prints the interface lines."""

    def __init__(self, pid, tier):
        self.pid, self.tier = pid, tier
        self.violations = []      # (key, what, replay_path)
        self.known_hits = []
        self.inconclusive = []
        self.known = [k for k in load_known() if k.get("property") == pid]
        self.t0 = time.time()

    def violation(self, key, what, replay=None):
        for k in self.known:
            if k.get("status") == "known" and k.get("key") == key:
                if key not in [x[0] for x in self.known_hits]:
                    self.known_hits.append((key, k.get("what", what)))
                return
        if key in [v[0] for v in self.violations]:
            return
        if replay is None:
            replay = save_replay(self.pid, key, {"what": what})
        self.violations.append((key, what, replay))

    def inconcl(self, what):
        self.inconclusive.append(what)

    def finish(self, ev):
        ev.data["violations"] = len(self.violations)
        ev.data["coverage"]["known_findings_hit"] = [k for k, _ in self.known_hits]
        ev.data["coverage"]["inconclusive"] = self.inconclusive[:20]
        ev.data["wall_s"] = round(time.time() - self.t0, 2)
        ev.write()
        for k, w in self.known_hits:
            print("KNOWN-FINDING: property=%s %s [%s]" % (self.pid, w, k))
        for k, w, r in self.violations:
            print("VIOLATION property=%s replay=%s" % (self.pid, r))
            print("  what: %s [%s]" % (w, k))
        for w in self.inconclusive:
            print("INCONCLUSIVE property=%s %s" % (self.pid, w))
        sys.stdout.flush()
        if self.violations:
            return 1
        if self.inconclusive:
            return 3
        print("OK property=%s tier=%s wall=%.1fs" % (self.pid, self.tier, time.time() - self.t0))
        return 0


def save_replay(pid, key, obj):
    d = os.path.join(VERIF, "replays")
    os.makedirs(d, exist_ok=True)
    h = hashlib.sha1(key.encode()).hexdigest()[:10]
    p = os.path.join(d, "%s_%s.json" % (pid, h))
    obj = dict(obj)
    obj["property"] = pid
    obj["key"] = key
    with open(p, "w") as f:
        json.dump(obj, f, indent=1, default=str)
    return p


# ---------------------------------------------------------------- evidence
class Evidence:
    def __init__(self, pid, tier, level="model_checking"):
        self.pid = pid
        self.data = {"property_id": pid, "tier": tier, "seed": SEED, "level": level,
                     "coverage": {"states": 0, "transitions": 0, "traces_validated_against_impl": 0,
                                  "samples": [], "functions_encoded": [], "units": [], "bounds": {},
                                  "outside_bounds": [], "queries": 0, "solver_s": 0.0, "stubs": [],
                                  "repo": repo_state()},
                     "assumptions": [], "wall_s": 0.0, "violations": 0}

    @property
    def cov(self):
        return self.data["coverage"]

    def add(self, key, n):
        self.cov[key] = self.cov.get(key, 0) + n

    def sample(self, s, limit=12):
        if len(self.cov["samples"]) < limit:
            self.cov["samples"].append(s)

    def extend_unique(self, key, items):
        cur = self.cov.setdefault(key, [])
        for i in items:
            if i not in cur:
                cur.append(i)

    def assume(self, *texts):
        for t in texts:
            if t not in self.data["assumptions"]:
                self.data["assumptions"].append(t)

    def write(self):
        if os.environ.get("VERIF_NOEVIDENCE"):     # runs against a scratch tree (seeded changes) must not overwrite the evidence
            return
        d = os.path.join(VERIF, "evidence")
        os.makedirs(d, exist_ok=True)
        c = self.cov
        c["solver_s"] = round(c.get("solver_s", 0.0), 2)
        tmp = os.path.join(d, ".%s.json.tmp" % self.pid)
        with open(tmp, "w") as f:
            json.dump(self.data, f, indent=1, default=str)
        os.replace(tmp, os.path.join(d, "%s.json" % self.pid))


# ---------------------------------------------------------------- parallel
def run_jobs(jobs, fn, nproc=None):
    """jobs: list of args; fn(arg)->result. Threads (the work is in subprocesses)."""
    res = [None] * len(jobs)
    with ThreadPoolExecutor(max_workers=nproc or NPROC) as ex:
        futs = {ex.submit(fn, j): i for i, j in enumerate(jobs)}
        for f in as_completed(futs):
            res[futs[f]] = f.result()
    return res
