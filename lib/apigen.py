"""Generate CBMC harnesses for the isal_ API wrappers (C13: FIPS gate, C16: SAFE_PARAM domain +
legacy/isal_ agreement) from (a) the prototypes found in the *current* sources and (b) the
documented argument domains in spec/api_domain.py."""
import os, re, sys, glob
sys.path.insert(0, os.path.join(os.path.dirname(os.path.abspath(__file__)), "..", "spec"))
import cparse
from common import REPO
import api_domain as AD

UNWIND = {"aes/aes_xts.c": 242, "rolling_hash/rolling_hash2.c": 258}


def discover_entry_points(repo=None):
    """Every function whose definition starts a line with `isal_` in a library (non-test) C file."""
    repo = repo or REPO
    found = {}
    for f in sorted(glob.glob(os.path.join(repo, "*", "*.c"))):
        rel = os.path.relpath(f, repo)
        b = os.path.basename(f)
        if re.search(r"(_test|_perf|_example)\.c$", b) or rel.startswith(("examples", "tests", "tools")) or "_ref" in b or b.endswith("_base_aliases.c"):
            continue
        for m in re.finditer(r"^(isal_\w+)\s*\(", open(f, errors="replace").read(), re.M):
            found.setdefault(m.group(1), rel)
    return found


def strip_const(ty):
    return " ".join(t for t in ty.replace("*", " * ").split() if t != "const").replace(" *", " *")


def is_ptr(ty):
    return "*" in ty


class TU:
    """One wrapper translation unit: parsed prototypes + generated harness text."""

    def __init__(self, src, defines=()):
        self.src = src
        self.text = cparse.preprocess(src, defines)
        fs = cparse.functions(self.text)
        self.defs = {f.name: f for f in fs if f.is_def}
        self.decls = {}
        for f in fs:
            if not f.is_def:
                self.decls.setdefault(f.name, f)
        self.entries = [n for n in self.defs if n.startswith("isal_")]
        self.legacy = [n for n, f in self.defs.items() if not n.startswith(("isal_", "_")) and "static" not in f.ret.split()]

    def proto(self, name):
        return self.defs.get(name) or self.decls.get(name)


def _ret_is_void(f):
    return f.ret.replace("extern", "").strip() == "void"


def gen_stub(f, k, mode, hash_submit=False, hash_flush=False):
    """Stub body for an internal (assembly / out-of-harness) function."""
    ps = ", ".join(cparse.decl_of(t, n) for t, n in f.params) or "void"
    ret = f.ret.replace("extern", "").strip()
    L = ["%s %s(%s) {" % (ret, f.name, ps)]
    L.append("  g_reached++; g_last_fn = %d;" % k)
    for i, (t, n) in enumerate(f.params[:12]):
        L.append("  g_args[%d] = (uint64_t) %s;" % (i, n))
    L.append("  if (!(g_st_calls > 0 && g_st_lastret == 0)) g_crypto_before_pass = 1;")
    if not _ret_is_void(f):
        if is_ptr(ret):
            # hash manager submit/flush: NULL, the submitted context, or another (error-free) context
            L.append("  uint8_t sel = ND_U8() % 3;")
            if hash_submit:
                L.append("  if (sel == 1 && g_valid_ctx_in) { %s r = (%s) g_args[1]; r->error = 0; return r; }" % (ret, ret))
            L.append("  if (sel == 2) { %s r = (%s) g_other_ctx; r->error = 0; return r; }" % (ret, ret))
            L.append("  return (%s) 0;" % ret)
        else:
            L.append("  g_stub_ret = (uint64_t) (%s) ND_U64(); return (%s) g_stub_ret;" % (ret, ret))
    L.append("}")
    return "\n".join(L)


PRELUDE = """#include "verif.h"
%(includes)s
int g_reached, g_last_fn; uint64_t g_args[12]; uint64_t g_stub_ret;
int g_st, g_st_calls, g_st_lastret = -1, g_crypto_before_pass, g_valid_ctx_in;
void *g_other_ctx;
#ifdef FIPS_MODE
#ifndef REAL_SELF_TESTS
int isal_self_tests(void) {
  g_st_calls++;
  if (g_st == 0) g_st = (ND_U8() & 1) ? 1 : 2;   /* first run: the tests pass or fail */
  g_st_lastret = (g_st == 1) ? 0 : ISAL_CRYPTO_ERR_SELF_TEST;
  return g_st_lastret;
}
#endif
#endif
"""


def scalar_decl(ty, name):
    t = strip_const(ty)
    bits = {"uint64_t": "ND_U64", "uint32_t": "ND_U32", "uint16_t": "ND_U16", "uint8_t": "ND_U8", "int": "ND_INT", "long": "ND_U64"}
    fn = bits.get(t, "ND_U64" if "64" in t or "long" in t else "ND_U32")
    return "%s %s = (%s) %s();" % (t, name, t, fn)


def gen_tu(src, mode, defines=()):
    """Returns (harness_c_text, [harness function names with metadata], tu) for one wrapper TU.
    mode: 'c16' (default build) or 'c13' (FIPS build)."""
    tu = TU(src, defines)
    ents = [e for e in tu.entries if e in AD.API and AD.API[e]["src"] == src]
    incl = "\n".join('#include "%s"' % h for h in AD.HEADERS.get(src, ["isal_crypto_api.h"]))
    out = [PRELUDE % {"includes": incl}]
    harnesses = []
    stubs_done = {}
    remove_bodies = []
    k = 0
    # stubs for every internal named in the table
    for e in ents:
        spec = AD.API[e]
        iname = spec.get("internal")
        if not iname or iname in stubs_done:
            continue
        f = tu.proto(iname)
        if f is None:
            continue
        if f.is_def:
            if not spec.get("stub_in_tu"):
                continue
            remove_bodies.append(iname)
        k += 1
        stubs_done[iname] = k
        out.append(gen_stub(f, k, mode, spec.get("hash_submit"), spec.get("hash_flush")))
    for e in ents:
        spec = AD.API[e]
        f = tu.defs[e]
        kint = stubs_done.get(spec.get("internal"))
        fint = tu.proto(spec["internal"]) if spec.get("internal") else None
        if mode == "c16":
            if kint is None and spec["args"]:
                for part in ("reject", "accept"):
                    out.append(gen_h16(e, f, spec, kint, fint, part))
                    harnesses.append({"fn": "h16%s_%s" % (part[0], e), "entry": e, "kind": "domain-" + part})
            else:
                out.append(gen_h16(e, f, spec, kint, fint))
                harnesses.append({"fn": "h16_" + e, "entry": e, "kind": "domain"})
        else:
            out.append(gen_h13(e, f, spec, kint, fint))
            harnesses.append({"fn": "h13_" + e, "entry": e, "kind": spec["fips"]})
    if mode == "c16":
        for lg in tu.legacy:
            isal = AD.LEGACY_MAP.get(lg, "isal_" + lg)
            if isal not in AD.API or isal not in tu.defs:
                continue
            spec = AD.API[isal]
            if not spec.get("internal") or spec["internal"] not in stubs_done:
                continue
            out.append(gen_hleg(lg, tu.defs[lg], isal, tu.defs[isal], spec, stubs_done[spec["internal"]]))
            harnesses.append({"fn": "hleg_" + lg, "entry": lg, "kind": "legacy", "isal": isal})
    return "\n\n".join(out) + "\n", harnesses, tu, remove_bodies


def _objs(f, spec, all_valid):
    """C statements that create the arguments. Returns (lines, ptr_names, scalar_names)."""
    L, ptrs, scal = [], [], []
    for (ty, n) in f.params:
        rule = spec["args"].get(n)
        if rule is None:
            raise KeyError("argument %s of %s has no rule in spec/api_domain.py" % (n, f.name))
        if rule["kind"] == "scalar":
            L.append("  " + scalar_decl(ty, n))
            scal.append(n)
        else:
            if all_valid:
                L.append("  uint8_t sel_%s = 1; void *p_%s = verif_obj(%s);" % (n, n, rule["size"]))
            else:
                L.append("  uint8_t sel_%s = ND_U8() %% 3; void *p_%s = sel_%s == 0 ? (void *) 0 : sel_%s == 1 ? verif_obj(%s) : verif_poison_ptr();" % (n, n, n, n, rule["size"]))
            ptrs.append(n)
    return L, ptrs, scal


def _call(f, name=None):
    args = []
    for (ty, n) in f.params:
        if is_ptr(ty):
            args.append("(%s) p_%s" % (ty, n))
        else:
            args.append(n)
    return "%s(%s)" % (name or f.name, ", ".join(args))


def _snap(ptrs, spec):
    L = []
    for n in ptrs:
        sz = spec["args"][n]["size"]
        L.append("  size_t ix_%s = ND_U32() %% (%s); uint8_t bf_%s = sel_%s == 1 ? ((uint8_t *) p_%s)[ix_%s] : 0;" % (n, sz, n, n, n, n))
    return L


def _unchanged(ptrs, tag):
    return ["    VASSERT(sel_%s != 1 || ((uint8_t *) p_%s)[ix_%s] == bf_%s, \"%s:no-write:%s\");" % (n, n, n, n, tag, n) for n in ptrs]


def _args_match(f, spec, fint, tag):
    """assertions that the internal saw the caller's arguments (positional, extra outputs removed)"""
    L = []
    if fint is None:
        return L
    wr = [(ty, n) for (ty, n) in f.params if not spec["args"][n].get("extra_out")]
    for i, ((ty, n), (ity, iname)) in enumerate(zip(wr, fint.params)):
        v = "p_%s" % n if is_ptr(ty) else n
        L.append("    VASSERT(g_args[%d] == (uint64_t) (%s) %s, \"%s:arg-passed-unchanged:%s\");" % (i, strip_const(ity), v, tag, n))
    return L


def gen_h16(e, f, spec, kint, fint, part="all"):
    tag = "C16:" + e
    L = ["void h16%s_%s(void) {" % ("" if part == "all" else part[0], e)]
    a, ptrs, scal = _objs(f, spec, False)
    L += a
    viol, codes, may = [], [], []
    for (ty, n) in f.params:
        r = spec["args"][n]
        if r["kind"] == "ptr":
            c = "(p_%s == (void *) 0)" % n + (" && (%s)" % r["when"] if r["when"] else "")
            L.append("  int v_%s = %s;" % (n, c))
            viol.append("v_" + n)
            codes.append("(v_%s && rc == %s)" % (n, r["code"]))
            if r.get("may"):
                L.append("  int m_%s = (p_%s == (void *) 0) && (%s);" % (n, n, r["may"]))
                may.append("m_" + n)
                codes.append("(m_%s && rc == %s)" % (n, r["code"]))
        elif r["valid"]:
            L.append("  int v_%s = !(%s);" % (n, r["valid"]))
            viol.append("v_" + n)
            codes.append("(v_%s && rc == %s)" % (n, r["code"]))
    L.append("  int must_reject = %s;" % (" || ".join(viol) if viol else "0"))
    L.append("  int may_reject = %s;   /* documentation leaves the verdict open: either outcome is accepted, each must be clean */" % (" || ".join(may) if may else "0"))
    if ptrs:
        L.append("  VASSUME(must_reject || !(%s));" % " || ".join("sel_%s == 2" % n for n in ptrs))
    if spec.get("assume"):
        L.append("  VASSUME(%s);   /* outside the documented domain, behaviour unspecified */" % spec["assume"])
    if part == "reject":
        L.append("  VASSUME(must_reject || may_reject);")
    elif part == "accept":
        L.append("  VASSUME(!must_reject);")
    if spec.get("hash_submit"):
        L.append("  g_valid_ctx_in = (sel_ctx_in == 1);")
    if spec.get("hash_submit") or spec.get("hash_flush"):
        L.append("  g_other_ctx = verif_obj(%s);" % spec["args"]["mgr"]["size"].replace("_MGR", ""))
    if part != "accept":
        L += _snap(ptrs, spec)
    L.append("  g_st_calls = 1; g_st_lastret = 0;")
    L.append("  int rc = %s;" % _call(f))
    if part == "accept":
        L.append("  if (0) {")
    else:
        L.append("  if (must_reject || (may_reject && rc != 0)) {")
    L.append("    VASSERT(rc != 0, \"%s:reject-nonzero\");" % tag)
    L.append("    VASSERT(%s, \"%s:reject-code-is-documented-for-a-bad-argument\");" % (" || ".join(codes) if codes else "0", tag))
    L.append("    VASSERT(g_reached == 0, \"%s:reject-does-no-work\");" % tag)
    if part != "accept":
        L += _unchanged(ptrs, tag + ":reject")
    L.append("  } else {")
    if spec.get("ret_internal"):
        L.append("    VASSERT((uint64_t) (int64_t) rc == (uint64_t) (int64_t) (int) g_stub_ret, \"%s:accept-returns-internal-status\");" % tag)
    else:
        L.append("    VASSERT(rc == 0, \"%s:accept-returns-0\");" % tag)
    if kint:
        L.append("    VASSERT(g_reached == 1 && g_last_fn == %d, \"%s:accept-reaches-internal-once\");" % (kint, tag))
        L += _args_match(f, spec, fint, tag)
    L.append("  }")
    L.append("  WITNESS_END();")
    L.append("}")
    return "\n".join(L)


def gen_h13(e, f, spec, kint, fint):
    tag = "C13:" + e
    L = ["void h13_%s(void) {" % e]
    a, ptrs, scal = _objs(f, spec, True)
    L += a
    for (ty, n) in f.params:
        r = spec["args"][n]
        if r["kind"] == "scalar" and r["valid"]:
            L.append("  VASSUME(%s);" % r["valid"])
    if spec.get("hash_submit"):
        L.append("  g_valid_ctx_in = 1;")
    if spec.get("hash_submit") or spec.get("hash_flush"):
        L.append("  g_other_ctx = verif_obj(%s);" % spec["args"]["mgr"]["size"].replace("_MGR", ""))
    L.append("  g_st = ND_U8() % 3;   /* 0 = self-tests not yet run, 1 = passed earlier, 2 = failed earlier */")
    L.append("  int st0 = g_st;")
    L += _snap(ptrs, spec)
    if "xts_keylen" in spec:
        L.append("  int same = 1; for (int i = 0; i < %d; i++) if (((uint8_t *) p_k1)[i] != ((uint8_t *) p_k2)[i]) same = 0;" % spec["xts_keylen"])
    L.append("  int rc = %s;" % _call(f))
    if spec["fips"] == "approved":
        L.append("  VASSERT(!g_crypto_before_pass, \"%s:no-crypto-before-self-tests-passed\");" % tag)
        if "xts_keylen" in spec:
            L.append("  if (same) {")
            L.append("    VASSERT(rc == ISAL_CRYPTO_ERR_XTS_SAME_KEYS, \"%s:identical-keys-refused\");" % tag)
            L.append("    VASSERT(g_reached == 0, \"%s:identical-keys-no-work\");" % tag)
            L += _unchanged(ptrs, tag + ":identical-keys")
            L.append("  } else")
        L.append("  if (g_st == 2) {")
        L.append("    VASSERT(rc == ISAL_CRYPTO_ERR_SELF_TEST, \"%s:failed-self-test-returns-error\");" % tag)
        L.append("    VASSERT(g_reached == 0, \"%s:failed-self-test-no-work\");" % tag)
        L += _unchanged(ptrs, tag + ":failed-self-test")
        L.append("  } else {")
        L.append("    VASSERT(g_st == 1 && g_st_calls >= 1, \"%s:self-tests-consulted\");" % tag)
        if spec.get("ret_internal"):
            pass
        else:
            L.append("    VASSERT(rc == 0, \"%s:passed-self-test-returns-0\");" % tag)
        if kint:
            L.append("    VASSERT(g_reached == 1, \"%s:passed-self-test-does-the-work\");" % tag)
        L.append("  }")
    elif spec["fips"] == "nonapproved":
        L.append("  VASSERT(rc == ISAL_CRYPTO_ERR_FIPS_INVALID_ALGO, \"%s:nonapproved-returns-invalid-algo\");" % tag)
        L.append("  VASSERT(g_reached == 0, \"%s:nonapproved-no-work\");" % tag)
        L += ["  " + x.strip() for x in _unchanged(ptrs, tag + ":nonapproved")]
    L.append("  WITNESS_END();")
    L.append("}")
    return "\n".join(L)


def gen_hleg(lg, fl, isal, fi, spec, kint):
    """legacy and isal_ form reach the same internal with the same argument tuple (valid arguments)."""
    tag = "C16:" + lg
    L = ["void hleg_%s(void) {" % lg]
    a, ptrs, scal = _objs(fi, spec, True)
    L += a
    for (ty, n) in fi.params:
        r = spec["args"][n]
        if r["kind"] == "scalar" and r["valid"]:
            L.append("  VASSUME(%s);" % r["valid"])
    if spec.get("hash_submit"):
        L.append("  g_valid_ctx_in = 1;")
    if spec.get("hash_submit") or spec.get("hash_flush"):
        L.append("  g_other_ctx = verif_obj(%s);" % spec["args"]["mgr"]["size"].replace("_MGR", ""))
    L.append("  g_st_calls = 1; g_st_lastret = 0;")
    L.append("  int rc = %s;" % _call(fi))
    L.append("  VASSUME(rc == 0);")
    L.append("  int r1 = g_reached, f1 = g_last_fn; uint64_t a1[12]; for (int i = 0; i < 12; i++) a1[i] = g_args[i];")
    L.append("  g_reached = 0; for (int i = 0; i < 12; i++) g_args[i] = 0;")
    # legacy call: positional, extra_out arguments dropped
    wr = [(ty, n) for (ty, n) in fi.params if not spec["args"][n].get("extra_out")]
    if len(wr) != len(fl.params):
        L.append("  VASSERT(0, \"%s:legacy-prototype-does-not-correspond-to-%s\");" % (tag, isal))
    else:
        args = []
        for (lty, ln), (ty, n) in zip(fl.params, wr):
            args.append("(%s) %s" % (lty, ("p_" + n) if is_ptr(ty) else n))
        L.append("  %s(%s);" % (lg, ", ".join(args)))
        L.append("  VASSERT(r1 == 1 && g_reached == 1 && f1 == g_last_fn, \"%s:legacy-and-isal-reach-the-same-internal-once\");" % tag)
        L.append("  for (int i = 0; i < %d; i++) VASSERT(a1[i] == g_args[i], \"%s:legacy-and-isal-pass-the-same-arguments\");" % (len(wr), tag))
    L.append("  WITNESS_END();")
    L.append("}")
    return "\n".join(L)
