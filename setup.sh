#!/bin/bash
# offline setup: byte-compile the framework and make sure the tools it drives are present
cd "$(dirname "$(readlink -f "$0")")"
set -e
for t in cbmc goto-cc goto-instrument gcc nasm objdump python3-vt z3; do command -v $t >/dev/null || { echo "missing tool: $t"; exit 1; }; done
python3-vt -m compileall -q lib checks spec asmsym 2>/dev/null || python3-vt -m compileall -q lib checks spec
python3-vt -c "import z3; print('z3', z3.get_version_string())"
mkdir -p evidence replays
echo setup-ok
