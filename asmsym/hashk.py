"""Kernel contract K: every multi-buffer hash kernel (and the single-buffer fall-backs without SHA-NI) is executed
symbolically on its assembled object with symbolic chaining values and symbolic message blocks in every lane and compared,
lane by lane, with the standard compression function (FIPS 180-4 SHA-1/256/512, RFC 1321 MD5, GB/T 32905 SM3).
Equivalence is decided by cut points: every round's new working variable and every expanded message word of the
specification is registered (as one round step over the previous symbols); z3 proves the implementation's value equal
the first time it appears in a vector register element, after which both sides share a symbol."""
import os, re, time
import z3
import common, loader, vecsym, aesrun
from aesrun import Case, run_case, prove_equal
from bvutil import *

K256 = [0x428a2f98, 0x71374491, 0xb5c0fbcf, 0xe9b5dba5, 0x3956c25b, 0x59f111f1, 0x923f82a4, 0xab1c5ed5, 0xd807aa98, 0x12835b01, 0x243185be, 0x550c7dc3, 0x72be5d74, 0x80deb1fe,
        0x9bdc06a7, 0xc19bf174, 0xe49b69c1, 0xefbe4786, 0x0fc19dc6, 0x240ca1cc, 0x2de92c6f, 0x4a7484aa, 0x5cb0a9dc, 0x76f988da, 0x983e5152, 0xa831c66d, 0xb00327c8, 0xbf597fc7,
        0xc6e00bf3, 0xd5a79147, 0x06ca6351, 0x14292967, 0x27b70a85, 0x2e1b2138, 0x4d2c6dfc, 0x53380d13, 0x650a7354, 0x766a0abb, 0x81c2c92e, 0x92722c85, 0xa2bfe8a1, 0xa81a664b,
        0xc24b8b70, 0xc76c51a3, 0xd192e819, 0xd6990624, 0xf40e3585, 0x106aa070, 0x19a4c116, 0x1e376c08, 0x2748774c, 0x34b0bcb5, 0x391c0cb3, 0x4ed8aa4a, 0x5b9cca4f, 0x682e6ff3,
        0x748f82ee, 0x78a5636f, 0x84c87814, 0x8cc70208, 0x90befffa, 0xa4506ceb, 0xbef9a3f7, 0xc67178f2]
K512 = [0x428a2f98d728ae22, 0x7137449123ef65cd, 0xb5c0fbcfec4d3b2f, 0xe9b5dba58189dbbc, 0x3956c25bf348b538, 0x59f111f1b605d019, 0x923f82a4af194f9b, 0xab1c5ed5da6d8118,
        0xd807aa98a3030242, 0x12835b0145706fbe, 0x243185be4ee4b28c, 0x550c7dc3d5ffb4e2, 0x72be5d74f27b896f, 0x80deb1fe3b1696b1, 0x9bdc06a725c71235, 0xc19bf174cf692694,
        0xe49b69c19ef14ad2, 0xefbe4786384f25e3, 0x0fc19dc68b8cd5b5, 0x240ca1cc77ac9c65, 0x2de92c6f592b0275, 0x4a7484aa6ea6e483, 0x5cb0a9dcbd41fbd4, 0x76f988da831153b5,
        0x983e5152ee66dfab, 0xa831c66d2db43210, 0xb00327c898fb213f, 0xbf597fc7beef0ee4, 0xc6e00bf33da88fc2, 0xd5a79147930aa725, 0x06ca6351e003826f, 0x142929670a0e6e70,
        0x27b70a8546d22ffc, 0x2e1b21385c26c926, 0x4d2c6dfc5ac42aed, 0x53380d139d95b3df, 0x650a73548baf63de, 0x766a0abb3c77b2a8, 0x81c2c92e47edaee6, 0x92722c851482353b,
        0xa2bfe8a14cf10364, 0xa81a664bbc423001, 0xc24b8b70d0f89791, 0xc76c51a30654be30, 0xd192e819d6ef5218, 0xd69906245565a910, 0xf40e35855771202a, 0x106aa07032bbd1b8,
        0x19a4c116b8d2d0c8, 0x1e376c085141ab53, 0x2748774cdf8eeb99, 0x34b0bcb5e19b48a8, 0x391c0cb3c5c95a63, 0x4ed8aa4ae3418acb, 0x5b9cca4f7763e373, 0x682e6ff3d6b2b8a3,
        0x748f82ee5defb2fc, 0x78a5636f43172f60, 0x84c87814a1f0ab72, 0x8cc702081a6439ec, 0x90befffa23631e28, 0xa4506cebde82bde9, 0xbef9a3f7b2c67915, 0xc67178f2e372532b,
        0xca273eceea26619c, 0xd186b8c721c0c207, 0xeada7dd6cde0eb1e, 0xf57d4f7fee6ed178, 0x06f067aa72176fba, 0x0a637dc5a2c898a6, 0x113f9804bef90dae, 0x1b710b35131c471b,
        0x28db77f523047d84, 0x32caab7b40c72493, 0x3c9ebe0a15c9bebc, 0x431d67c49c100d4c, 0x4cc5d4becb3e42b6, 0x597f299cfc657e2a, 0x5fcb6fab3ad6faec, 0x6c44198c4a475817]
MD5_S = [7, 12, 17, 22] * 4 + [5, 9, 14, 20] * 4 + [4, 11, 16, 23] * 4 + [6, 10, 15, 21] * 4
import math
MD5_T = [int(abs(math.sin(i + 1)) * 2 ** 32) & 0xffffffff for i in range(64)]


def bswap(v, w):
    return cat([(ext(v, 8 * k + 7, 8 * k), 8) for k in range(w // 8)])


def _reg(ct, label, v):
    return v if (ct is None or is_c(v)) else ct.register(label, simp(v))


def sha256_compress(st, W, ct, p):
    ror = lambda x, n: bror(x, n, 32)
    add = lambda *a: simp(__import__("functools").reduce(lambda x, y: badd(x, y, 32), a))
    W = list(W)
    for t in range(16, 64):
        s0 = bxor(bxor(ror(W[t - 15], 7), ror(W[t - 15], 18), 32), bshr(W[t - 15], 3, 32), 32)
        s1 = bxor(bxor(ror(W[t - 2], 17), ror(W[t - 2], 19), 32), bshr(W[t - 2], 10, 32), 32)
        W.append(_reg(ct, "%sW%d" % (p, t), add(W[t - 16], s0, W[t - 7], s1)))
    a, b, c, d, e, f, g, h = st
    for t in range(64):
        S1 = bxor(bxor(ror(e, 6), ror(e, 11), 32), ror(e, 25), 32)
        ch = bxor(band(e, f, 32), band(bnot(e, 32), g, 32), 32)
        S0 = bxor(bxor(ror(a, 2), ror(a, 13), 32), ror(a, 22), 32)
        mj = bxor(bxor(band(a, b, 32), band(a, c, 32), 32), band(b, c, 32), 32)
        T1 = add(h, S1, ch, K256[t], W[t])
        ne = _reg(ct, "%se%d" % (p, t + 1), add(d, T1))
        na = _reg(ct, "%sa%d" % (p, t + 1), add(T1, S0, mj))
        h, g, f, e, d, c, b, a = g, f, e, ne, c, b, a, na
    return [simp(badd(x, y, 32)) for x, y in zip(st, [a, b, c, d, e, f, g, h])]


def sha512_compress(st, W, ct, p):
    ror = lambda x, n: bror(x, n, 64)
    add = lambda *a: simp(__import__("functools").reduce(lambda x, y: badd(x, y, 64), a))
    W = list(W)
    for t in range(16, 80):
        s0 = bxor(bxor(ror(W[t - 15], 1), ror(W[t - 15], 8), 64), bshr(W[t - 15], 7, 64), 64)
        s1 = bxor(bxor(ror(W[t - 2], 19), ror(W[t - 2], 61), 64), bshr(W[t - 2], 6, 64), 64)
        W.append(_reg(ct, "%sW%d" % (p, t), add(W[t - 16], s0, W[t - 7], s1)))
    a, b, c, d, e, f, g, h = st
    for t in range(80):
        S1 = bxor(bxor(ror(e, 14), ror(e, 18), 64), ror(e, 41), 64)
        ch = bxor(band(e, f, 64), band(bnot(e, 64), g, 64), 64)
        S0 = bxor(bxor(ror(a, 28), ror(a, 34), 64), ror(a, 39), 64)
        mj = bxor(bxor(band(a, b, 64), band(a, c, 64), 64), band(b, c, 64), 64)
        T1 = add(h, S1, ch, K512[t], W[t])
        ne = _reg(ct, "%se%d" % (p, t + 1), add(d, T1))
        na = _reg(ct, "%sa%d" % (p, t + 1), add(T1, S0, mj))
        h, g, f, e, d, c, b, a = g, f, e, ne, c, b, a, na
    return [simp(badd(x, y, 64)) for x, y in zip(st, [a, b, c, d, e, f, g, h])]


def sha1_compress(st, W, ct, p):
    rol = lambda x, n: brol(x, n, 32)
    add = lambda *a: simp(__import__("functools").reduce(lambda x, y: badd(x, y, 32), a))
    W = list(W)
    for t in range(16, 80):
        W.append(_reg(ct, "%sW%d" % (p, t), simp(rol(bxor(bxor(W[t - 3], W[t - 8], 32), bxor(W[t - 14], W[t - 16], 32), 32), 1))))
    a, b, c, d, e = st
    for t in range(80):
        if t < 20:
            f, k = bxor(band(b, c, 32), band(bnot(b, 32), d, 32), 32), 0x5a827999
        elif t < 40:
            f, k = bxor(bxor(b, c, 32), d, 32), 0x6ed9eba1
        elif t < 60:
            f, k = bxor(bxor(band(b, c, 32), band(b, d, 32), 32), band(c, d, 32), 32), 0x8f1bbcdc
        else:
            f, k = bxor(bxor(b, c, 32), d, 32), 0xca62c1d6
        na = _reg(ct, "%sa%d" % (p, t + 1), add(rol(a, 5), f, e, k, W[t]))
        nc = _reg(ct, "%sc%d" % (p, t + 1), simp(rol(b, 30)))
        e, d, c, b, a = d, c, nc, a, na
    return [simp(badd(x, y, 32)) for x, y in zip(st, [a, b, c, d, e])]


def md5_compress(st, M, ct, p):
    rol = lambda x, n: brol(x, n, 32)
    add = lambda *a: simp(__import__("functools").reduce(lambda x, y: badd(x, y, 32), a))
    a, b, c, d = st
    for i in range(64):
        if i < 16:
            f, g = bor(band(b, c, 32), band(bnot(b, 32), d, 32), 32), i
        elif i < 32:
            f, g = bor(band(d, b, 32), band(bnot(d, 32), c, 32), 32), (5 * i + 1) % 16
        elif i < 48:
            f, g = bxor(bxor(b, c, 32), d, 32), (3 * i + 5) % 16
        else:
            f, g = bxor(c, bor(b, bnot(d, 32), 32), 32), (7 * i) % 16
        nb = _reg(ct, "%sb%d" % (p, i + 1), add(b, rol(add(a, f, MD5_T[i], M[g]), MD5_S[i])))
        a, d, c, b = d, c, b, nb
    return [simp(badd(x, y, 32)) for x, y in zip(st, [a, b, c, d])]


def sm3_compress(st, W, ct, p):
    rol = lambda x, n: brol(x, n % 32, 32)
    add = lambda *a: simp(__import__("functools").reduce(lambda x, y: badd(x, y, 32), a))
    x3 = lambda a, b, c: bxor(bxor(a, b, 32), c, 32)
    P0 = lambda x: x3(x, rol(x, 9), rol(x, 17))
    P1 = lambda x: x3(x, rol(x, 15), rol(x, 23))
    W = list(W)
    for j in range(16, 68):
        W.append(_reg(ct, "%sW%d" % (p, j), simp(x3(P1(x3(W[j - 16], W[j - 9], rol(W[j - 3], 15))), rol(W[j - 13], 7), W[j - 6]))))
    A, B, C, D, E, F, G, H = st
    for j in range(64):
        T = 0x79cc4519 if j < 16 else 0x7a879d8a
        SS1 = rol(add(rol(A, 12), E, brol(T, j % 32, 32)), 7)
        SS2 = bxor(SS1, rol(A, 12), 32)
        if j < 16:
            FF, GG = x3(A, B, C), x3(E, F, G)
        else:
            FF = bor(bor(band(A, B, 32), band(A, C, 32), 32), band(B, C, 32), 32)
            GG = bor(band(E, F, 32), band(bnot(E, 32), G, 32), 32)
        TT1 = add(FF, D, SS2, bxor(W[j], W[j + 4], 32))
        TT2 = add(GG, H, SS1, W[j])
        nA = _reg(ct, "%sA%d" % (p, j + 1), TT1)
        nE = _reg(ct, "%sE%d" % (p, j + 1), simp(P0(TT2)))
        nC = _reg(ct, "%sC%d" % (p, j + 1), simp(rol(B, 9)))
        nG = _reg(ct, "%sG%d" % (p, j + 1), simp(rol(F, 19)))
        D, C, B, A, H, G, F, E = C, nC, A, nA, G, nG, E, nE
    return [simp(bxor(x, y, 32)) for x, y in zip(st, [A, B, C, D, E, F, G, H])]


ALG = {
    "sha1": dict(words=5, wbits=32, block=64, maxl=16, compress=sha1_compress, be=True),
    "sha256": dict(words=8, wbits=32, block=64, maxl=16, compress=sha256_compress, be=True),
    "sha512": dict(words=8, wbits=64, block=128, maxl=8, compress=sha512_compress, be=True),
    "md5": dict(words=4, wbits=32, block=64, maxl=32, compress=md5_compress, be=False),
    "sm3": dict(words=8, wbits=32, block=64, maxl=16, compress=sm3_compress, be=True),
}
KERNELS = [
    ("sha1", "sha1_mb_x4_sse", 4), ("sha1", "sha1_mb_x4_avx", 4), ("sha1", "sha1_mb_x8_avx2", 8), ("sha1", "sha1_mb_x16_avx512", 16),
    ("sha256", "sha256_mb_x4_sse", 4), ("sha256", "sha256_mb_x4_avx", 4), ("sha256", "sha256_mb_x8_avx2", 8), ("sha256", "sha256_mb_x16_avx512", 16),
    ("sha512", "sha512_mb_x2_sse", 2, 32), ("sha512", "sha512_mb_x2_avx", 2, 32), ("sha512", "sha512_mb_x4_avx2", 4), ("sha512", "sha512_mb_x8_avx512", 8),
    ("md5", "md5_mb_x4x2_sse", 8), ("md5", "md5_mb_x4x2_avx", 8), ("md5", "md5_mb_x8x2_avx2", 16), ("md5", "md5_mb_x16x2_avx512", 32),
    ("sm3", "sm3_mb_x8_avx2", 8), ("sm3", "sm3_mb_x16_avx512", 16),
]


QUICK = {"sha1_mb_x4_sse", "sha1_mb_x4_avx", "sha1_mb_x8_avx2", "sha256_mb_x4_sse", "sha256_mb_x4_avx", "sha256_mb_x8_avx2", "sha512_mb_x2_sse", "sha512_mb_x2_avx", "sha512_mb_x4_avx2"}
CANON_MNEMS = {"paddd", "paddq", "vpaddd", "vpaddq", "por", "vpor", "vpord", "vporq", "vprold", "vprolq", "vprord", "vprorq", "pxor", "vpxor", "vpxord", "vpxorq", "vpternlogd", "vpternlogq"}


def kernel_case(img, alg, func, lanes_n, nblocks=1, ptr_cross_4g=False, row_stride=None):
    """args struct: digest[words][maxl] (transposed) followed by data_ptr[maxl]; (args, num_blocks)"""
    A = ALG[alg]
    wb, nw, bl, maxl = A["wbits"], A["words"], A["block"], A["maxl"]
    rs = row_stride or lanes_n * wb // 8        # bytes between consecutive digest words of one lane (kernel-specific row size)
    c = Case("%s blocks=%d%s" % (func, nblocks, " (lane pointers across a 4 GiB boundary)" if ptr_cross_4g else ""), func)
    dsz = nw * maxl * wb // 8
    args_base = c.region("args", dsz + 8 * maxl, "state", align_off=0)
    ptrs = []
    for l in range(lanes_n):
        if ptr_cross_4g and l == lanes_n - 1:
            c.next = 0x2ffffffe0 - 0  # place the last lane's buffer so that ptr + 64*n crosses a multiple of 2^32
            base = 0x300000000 - (bl * nblocks) // 2
            c.regions.append(("msg%d" % l, base, bl * nblocks, "in", None))
            c.next = 0x400000000
            ptrs.append(base)
        else:
            ptrs.append(c.region("msg%d" % l, bl * nblocks, "in", align_off=(3 * l + 1) % 16))
    c.args = [args_base, nblocks]
    out = aescases_Outcome(c.name)
    if func not in img.symbols:
        out.error = "symbol %s not found" % func
        return out
    info = {}

    def prepare(m, mem, regs):
        R = regs["args"]
        ct = aesrun.CutTable(common.SEED)
        ct.elem_bits = wb
        ct.fast = True
        ct.pairs = {}
        m.cuts = ct
        m.elem = wb
        m.canon_mnems = CANON_MNEMS
        info["ct"] = ct
        st = []
        for l in range(lanes_n):
            row = []
            for w in range(nw):
                v = z3.BitVec("in_digest_w%d_l%d" % (w, l), wb)
                mem.set_value(R, w * rs + l * wb // 8, v, wb)
                row.append(v)
            st.append(row)
        for l in range(maxl):
            mem.set_value(R, dsz + 8 * l, ptrs[l] if l < lanes_n else z3.BitVec("stale_ptr_l%d" % l, 64), 64)
        for off in range(0, dsz, wb // 8):     # rest of the digest area: not defined by the contract
            if off not in R.bytes:
                mem.set_value(R, off, z3.BitVec("stale_digest_area_%x" % off, wb), wb)
        # specification, chained over cut symbols
        spec = []
        for l in range(lanes_n):
            s = st[l]
            mr = regs["msg%d" % l]
            for b in range(nblocks):
                words = []
                for k in range(bl * 8 // wb):
                    raw = mem.get(mr, b * bl + k * wb // 8, wb)
                    words.append(simp(bswap(raw, wb)) if A["be"] else raw)
                s = A["compress"](s, words, ct, "l%d_b%d_" % (l, b))
                if b + 1 < nblocks:
                    s = [_reg(ct, "l%d_b%d_H%d" % (l, b, k), x) for k, x in enumerate(s)]
            spec.append(s)
        info["spec"], info["st"] = spec, st
    res = run_case(img, c, prepare=prepare, max_steps=4000000)
    out.steps = res.steps
    if res.error:
        out.error = res.error
        return out
    ct = info["ct"]
    R = res.regions["args"]
    hyps = ct.hypotheses()
    outputs = []
    for l in range(lanes_n):
        for w in range(nw):
            got = res.mem.get(R, w * rs + l * wb // 8, wb)
            outputs.append(("digest[%d][lane %d]" % (w, l), got, wb))
            out.obligations += 1
            verdict, model, dt = prove_equal(got, info["spec"][l][w], wb, hyps=[], sim=ct)
            if verdict != "proved" and verdict != "refuted":
                verdict, model, dt = prove_equal(got, info["spec"][l][w], wb, hyps=hyps, sim=ct)
            out.queries += 1
            out.solver_s += dt
            if verdict == "proved":
                out.discharged += 1
            elif verdict == "refuted":
                out.bad(["C01"], "kernel:digest", "%s: digest word %d of lane %d differs from the standard compression (%s)" % (c.name, w, l, ("got %s, standard %s" % (model.get("lhs"), model.get("rhs"))) if isinstance(model, dict) else "solver model"))
            else:
                out.error = "solver unknown on digest word %d lane %d" % (w, l)
        got = res.mem.get(R, dsz + 8 * l, 64)
        out.obligations += 1
        if simp(got) == ptrs[l] + bl * nblocks:
            out.discharged += 1
        else:
            out.bad(["C01", "C08"], "kernel:data_ptr", "%s: data_ptr of lane %d is %s after the call instead of start + %d" % (c.name, l, hex(simp(got)) if is_c(simp(got)) else "symbolic", bl * nblocks))
    out.queries += ct.proved
    out.solver_s += ct.solver_s
    # footprint: message bytes read exactly, nothing else; digest rows of unused lanes / pointers beyond lanes_n untouched is not required
    for (kind, a, n, what, desc) in res.violations:
        out.bad(["C08"], "footprint:%s:%s" % (kind, desc.split(" ")[0]), "%s of %d byte(s) at %s by '%s'" % (kind, n, desc, what))
    out.obligations += 1
    if not res.violations:
        out.discharged += 1
    for lab, val, bits in outputs:
        out.obligations += 1
        st_ = aesrun.stale_dependence(val)
        if st_:
            out.bad(["C20"], "stale:%s" % lab.split("[")[0], "%s depends on undefined state %s" % (lab, st_[:3]))
        else:
            out.discharged += 1
    return out


MH_KERNELS = [("sha1", "mh_sha1/mh_sha1_block_%s.asm", "mh_sha1_block_%s"), ("sha256", "mh_sha256/mh_sha256_block_%s.asm", "mh_sha256_block_%s")]
MH_FAMS = ["sse", "avx", "avx2", "avx512"]


MUR_C1, MUR_C2 = 0x87c37b91114253d5, 0x4cf5ad432745937f


def murmur_body(h1, h2, k1, k2, ct, p):
    """one 16-byte step of MurmurHash3_x64_128"""
    k1 = brol(simp(bmul(k1, MUR_C1, 64)), 31, 64)
    k1 = simp(bmul(k1, MUR_C2, 64))
    h1 = brol(simp(bxor(h1, k1, 64)), 27, 64)
    h1 = simp(badd(h1, h2, 64))
    h1 = _reg(ct, p + "h1", simp(badd(bmul(h1, 5, 64), 0x52dce729, 64)))
    k2 = brol(simp(bmul(k2, MUR_C2, 64)), 33, 64)
    k2 = simp(bmul(k2, MUR_C1, 64))
    h2 = brol(simp(bxor(h2, k2, 64)), 31, 64)
    h2 = simp(badd(h2, h1, 64))
    h2 = _reg(ct, p + "h2", simp(badd(bmul(h2, 5, 64), 0x38495ab5, 64)))
    return h1, h2


def mh_case(img, alg, func, nblocks=2, murmur=False):
    """multi-hash block function: (input, digests[words][16], frame_buffer[1024], num_blocks); 16 segments, segment s takes dword s
    of each 64-byte row of the 1024-byte block as its message word; every segment's digest must be the iterated standard compression"""
    A = ALG[alg]
    nw = A["words"]
    c = Case("%s blocks=%d" % (func, nblocks), func)
    inp = c.region("input", 1024 * nblocks, "in", align_off=5)
    dg = c.region("digests", nw * 64, "state", align_off=0)
    fb = c.region("frame_buffer", 1024, "state", align_off=0)
    c.args = [inp, dg, fb, nblocks]
    if murmur:
        md = c.region("murmur_digest", 16, "state", align_off=8)
        c.args = [inp, dg, fb, md, nblocks]
    out = aescases_Outcome(c.name)
    if func not in img.symbols:
        out.error = "symbol %s not found" % func
        return out
    info = {}

    def prepare(m, mem, regs):
        R = regs["digests"]
        ct = aesrun.CutTable(common.SEED)
        ct.elem_bits = 32
        ct.fast = True
        ct.pairs = {}
        m.cuts = ct
        m.elem = 32
        m.canon_mnems = CANON_MNEMS
        info["ct"] = ct
        spec = []
        mr = regs["input"]
        for sgm in range(16):
            st = []
            for w in range(nw):
                v = z3.BitVec("in_digest_w%d_s%d" % (w, sgm), 32)
                mem.set_value(R, (w * 16 + sgm) * 4, v, 32)
                st.append(v)
            for b in range(nblocks):
                words = [simp(bswap(mem.get(mr, b * 1024 + (i * 16 + sgm) * 4, 32), 32)) for i in range(16)]
                st = A["compress"](st, words, ct, "s%d_b%d_" % (sgm, b))
                if b + 1 < nblocks:
                    st = [_reg(ct, "s%d_b%d_H%d" % (sgm, b, k), x) for k, x in enumerate(st)]
            spec.append(st)
        info["spec"] = spec
        if murmur:
            m.scalar_canon_mnems = {"add", "lea", "imul", "xor", "rol", "ror", "rorx"}
            MR = regs["murmur_digest"]
            h1, h2 = z3.BitVec("in_murmur_h1", 64), z3.BitVec("in_murmur_h2", 64)
            mem.set_value(MR, 0, h1, 64)
            mem.set_value(MR, 8, h2, 64)
            for ch in range(64 * nblocks):
                h1, h2 = murmur_body(h1, h2, mem.get(mr, 16 * ch, 64), mem.get(mr, 16 * ch + 8, 64), ct, "mur%d_" % ch)
            info["mur"] = (h1, h2)
    res = run_case(img, c, prepare=prepare, max_steps=6000000)
    out.steps = res.steps
    if res.error:
        out.error = res.error
        return out
    ct = info["ct"]
    R = res.regions["digests"]
    hyps = ct.hypotheses()
    outputs = []
    for sgm in range(16):
        for w in range(nw):
            got = res.mem.get(R, (w * 16 + sgm) * 4, 32)
            outputs.append(("digests[%d][segment %d]" % (w, sgm), got, 32))
            out.obligations += 1
            verdict, model, dt = prove_equal(got, info["spec"][sgm][w], 32, hyps=[], sim=ct)
            if verdict != "proved" and verdict != "refuted":
                verdict, model, dt = prove_equal(got, info["spec"][sgm][w], 32, hyps=hyps, sim=ct)
            out.queries += 1
            out.solver_s += dt
            if verdict == "proved":
                out.discharged += 1
            elif verdict == "refuted":
                out.bad(["C10"] if murmur else ["C05"], "mhkernel:digest", "%s: interim digest word %d of segment %d differs from SHA over the segment's words (%s)" % (c.name, w, sgm, ("got %s, standard %s" % (model.get("lhs"), model.get("rhs"))) if isinstance(model, dict) else "solver model"))
            else:
                out.error = "solver unknown on digest word %d segment %d" % (w, sgm)
    if murmur:
        MR = res.regions["murmur_digest"]
        for k in range(2):
            got = res.mem.get(MR, 8 * k, 64)
            outputs.append(("murmur_digest[%d]" % k, got, 64))
            out.obligations += 1
            verdict, model, dt = prove_equal(got, info["mur"][k], 64, hyps=[], sim=ct)
            if verdict != "proved" and verdict != "refuted":
                verdict, model, dt = prove_equal(got, info["mur"][k], 64, hyps=hyps, sim=ct)
            out.queries += 1
            out.solver_s += dt
            if verdict == "proved":
                out.discharged += 1
            elif verdict == "refuted":
                out.bad(["C10"], "mhkernel:murmur", "%s: murmur state word %d after the call differs from MurmurHash3_x64_128 over the %d bytes (%s)" % (c.name, k, 1024 * nblocks, ("got %s, standard %s" % (model.get("lhs"), model.get("rhs"))) if isinstance(model, dict) else "solver model"))
            else:
                out.error = "solver unknown on murmur word %d" % k
    out.queries += ct.proved
    out.solver_s += ct.solver_s
    for (kind, a, n, what, desc) in res.violations:
        out.bad(["C08"], "footprint:%s:%s" % (kind, desc.split(" ")[0]), "%s of %d byte(s) at %s by '%s'" % (kind, n, desc, what))
    out.obligations += 1
    if not res.violations:
        out.discharged += 1
    for lab, val, bits in outputs:
        out.obligations += 1
        st_ = aesrun.stale_dependence(val)
        if st_:
            out.bad(["C20"], "stale:%s" % lab.split("[")[0], "%s depends on undefined state %s" % (lab, st_[:3]))
        else:
            out.discharged += 1
    return out


class aescases_Outcome:
    def __init__(self, case):
        self.case = case
        self.problems = []
        self.obligations = 0
        self.discharged = 0
        self.queries = 0
        self.solver_s = 0.0
        self.steps = 0
        self.error = None

    def bad(self, props, key, text):
        self.problems.append((props, key, text))
