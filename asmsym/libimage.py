"""The whole library as assembled from /repo's working tree: every object disassembled (objdump), global
symbol table, direct call/jump graph, per-instruction CPU-feature classification (from the encoding)."""
import os, re, subprocess, glob
from concurrent.futures import ThreadPoolExecutor
import common
from elfobj import Obj, PREFIXES, split_ops

_lab = re.compile(r"^([0-9a-f]+) <(.+)>:$")


class LInsn:
    __slots__ = ("addr", "size", "raw", "mnem", "text", "target", "reloc_sym", "reloc_add", "prefixes")


class ObjImage:
    def __init__(self, path):
        self.path = path
        self.name = os.path.basename(path)
        self.elf = Obj(path)
        self.sections = {}    # section name -> {addr: LInsn}
        self.labels = {}      # (section, addr) -> [names]
        self.symbols = {}     # name -> (section, addr)
        self._disasm()

    def _disasm(self):
        p = subprocess.run(["objdump", "-dr", "-w", "-M", "intel", self.path], capture_output=True, text=True)
        sec = None
        last = None
        for ln in p.stdout.splitlines():
            if ln.startswith("Disassembly of section "):
                sec = ln[len("Disassembly of section "):].rstrip(":")
                self.sections.setdefault(sec, {})
                last = None
                continue
            m = _lab.match(ln)
            if m:
                a = int(m.group(1), 16)
                self.labels.setdefault((sec, a), []).append(m.group(2))
                self.symbols.setdefault(m.group(2), (sec, a))
                continue
            f = ln.split("\t")
            if len(f) >= 3 and f[0].strip().endswith(":"):
                try:
                    addr = int(f[0].strip()[:-1], 16)
                    raw = bytes.fromhex(f[1].replace(" ", ""))
                except ValueError:
                    continue
                i = LInsn()
                i.addr, i.raw, i.size = addr, raw, len(raw)
                t = f[2].split("#")[0].strip()
                parts = t.split()
                pf = []
                while parts and parts[0] in PREFIXES:
                    pf.append(parts.pop(0))
                i.prefixes = tuple(pf)
                i.mnem = parts[0] if parts else ""
                txt = " ".join(parts[1:])
                i.target = None
                if re.match(r"^(j\w+|call|loop\w*)$", i.mnem):
                    txt = re.sub(r"\s*<[^>]*>\s*$", "", txt)
                    if re.match(r"^[0-9a-f]+$", txt.strip()):
                        i.target = int(txt.strip(), 16)
                i.text = txt
                i.reloc_sym, i.reloc_add = None, 0
                k = 3
                while k + 1 < len(f):
                    m2 = re.match(r"^\s*([0-9a-f]+): (R_X86_64_\w+)$", f[k])
                    if m2:
                        e = f[k + 1].strip()
                        m3 = re.match(r"^(.+?)([+-]0x[0-9a-f]+)?$", e)
                        i.reloc_sym = m3.group(1)
                        add = int(m3.group(2), 16) if m3.group(2) else 0
                        if m2.group(2) in ("R_X86_64_PC32", "R_X86_64_PLT32"):
                            add += (addr + i.size) - int(m2.group(1), 16)
                            if i.size != len(raw):
                                pass
                        i.reloc_add = add
                    k += 2
                self.sections[sec][addr] = i
                last = i
            elif len(f) == 2 and f[0].strip().endswith(":") and last is not None:
                try:
                    extra = bytes.fromhex(f[1].replace(" ", ""))
                    # continuation line: relocation addends computed with the short size are corrected here
                    if last.reloc_sym is not None:
                        last.reloc_add += len(extra)
                    last.raw += extra
                    last.size = len(last.raw)
                except ValueError:
                    pass


class LibImage:
    def __init__(self, archive, workdir, nproc=16):
        self.archive = archive
        od = os.path.join(workdir, "objs")
        os.makedirs(od, exist_ok=True)
        subprocess.run(["ar", "x", archive], cwd=od, check=True)
        paths = sorted(glob.glob(os.path.join(od, "*.o")))
        with ThreadPoolExecutor(max_workers=nproc) as ex:
            self.objs = list(ex.map(ObjImage, paths))
        self.globals = {}    # global symbol -> (ObjImage, section, addr)
        for o in self.objs:
            for s in o.elf.symbols:
                if s.shndx and s.shndx < 0xff00 and s.name and s.bind in (1, 2):
                    sec = o.elf.sections[s.shndx]
                    self.globals.setdefault(s.name, (o, sec.name, s.value))
        self.ninsns = sum(len(d) for o in self.objs for d in o.sections.values())

    def resolve(self, o, i):
        """Where does a direct call/jmp/lea-reloc of instruction i in object o lead: (obj, section, addr) or None."""
        if i.reloc_sym is not None:
            s = i.reloc_sym
            if s.startswith("."):
                return (o, s, i.reloc_add)
            if s in o.symbols and o.elf.sym(s) is not None and (o.elf.sym(s).bind == 0):
                sec, a = o.symbols[s]
                return (o, sec, a + i.reloc_add)
            if s in self.globals:
                g = self.globals[s]
                return (g[0], g[1], g[2] + i.reloc_add)
            return None
        return None

    def reachable(self, start):
        """All instructions reachable from (obj, section, addr) through direct control flow and direct calls.
        Returns (list of (obj, section, LInsn), list of indirect transfers met, list of unresolved externals)."""
        seen, out, indirect, unresolved = set(), [], [], []
        work = [start]
        while work:
            o, sec, a = work.pop()
            d = o.sections.get(sec)
            while d is not None:
                key = (o.name, sec, a)
                if key in seen:
                    break
                i = d.get(a)
                if i is None:
                    break
                seen.add(key)
                out.append((o, sec, i))
                mn = i.mnem
                if mn in ("ret", "hlt", "ud2"):
                    break
                if mn == "jmp":
                    if i.reloc_sym is not None and "[" not in i.text:
                        t = self.resolve(o, i)
                        if t:
                            work.append(t)
                        else:
                            unresolved.append(i.reloc_sym)
                    elif i.target is not None:
                        work.append((o, sec, i.target))
                    else:
                        indirect.append((o.name, sec, i.addr, i.text, i.reloc_sym))
                    break
                if mn == "call":
                    if i.reloc_sym is not None and "[" not in i.text:
                        t = self.resolve(o, i)
                        if t:
                            work.append(t)
                        else:
                            unresolved.append(i.reloc_sym)
                    elif i.target is not None:
                        work.append((o, sec, i.target))
                    else:
                        indirect.append((o.name, sec, i.addr, i.text, i.reloc_sym))
                elif mn.startswith("j") and i.target is not None:
                    work.append((o, sec, i.target))
                elif mn.startswith("j") and i.reloc_sym is not None:
                    t = self.resolve(o, i)
                    if t:
                        work.append(t)
                a += i.size
        return out, indirect, unresolved


# ------------------------------------------------------------------ feature classification
SSE3 = {"addsubpd", "addsubps", "haddpd", "haddps", "hsubpd", "hsubps", "lddqu", "movddup", "movshdup", "movsldup"}
SSSE3 = {"pshufb", "palignr", "pabsb", "pabsw", "pabsd", "phaddw", "phaddd", "phaddsw", "phsubw", "phsubd", "phsubsw", "pmaddubsw", "pmulhrsw", "psignb", "psignw", "psignd"}
SSE41 = {"pinsrb", "pinsrd", "pinsrq", "pextrb", "pextrd", "pextrq", "pblendw", "pblendvb", "blendps", "blendpd", "blendvps", "blendvpd", "ptest", "pmovzxbw", "pmovzxbd",
         "pmovzxbq", "pmovzxwd", "pmovzxwq", "pmovzxdq", "pmovsxbw", "pmovsxbd", "pmovsxbq", "pmovsxwd", "pmovsxwq", "pmovsxdq", "pminsb", "pminsd", "pminuw", "pminud",
         "pmaxsb", "pmaxsd", "pmaxuw", "pmaxud", "pmulld", "pmuldq", "pcmpeqq", "packusdw", "movntdqa", "roundps", "roundpd", "roundss", "roundsd", "dpps", "dppd",
         "insertps", "extractps", "mpsadbw", "phminposuw"}
SSE42 = {"pcmpgtq", "crc32", "pcmpestri", "pcmpestrm", "pcmpistri", "pcmpistrm"}
AESNI = {"aesenc", "aesenclast", "aesdec", "aesdeclast", "aesimc", "aeskeygenassist"}
SHA = {"sha1rnds4", "sha1nexte", "sha1msg1", "sha1msg2", "sha256rnds2", "sha256msg1", "sha256msg2"}
BMI2 = {"rorx", "pext", "pdep", "sarx", "shlx", "shrx", "mulx", "bzhi"}
BMI1 = {"andn", "bextr", "blsi", "blsmsk", "blsr", "tzcnt"}
AVX2_ONLY = {"vpbroadcastb", "vpbroadcastw", "vpbroadcastd", "vpbroadcastq", "vbroadcasti128", "vinserti128", "vextracti128", "vperm2i128", "vpermd", "vpermq", "vpermps", "vpermpd",
             "vpsllvd", "vpsllvq", "vpsrlvd", "vpsrlvq", "vpsravd", "vpmaskmovd", "vpmaskmovq", "vpgatherdd", "vpgatherdq", "vpgatherqd", "vpgatherqq", "vgatherdps", "vgatherdpd",
             "vgatherqps", "vgatherqpd", "vpblendd"}
AVX_FP_YMM_OK = {"vmovdqu", "vmovdqa", "vmovups", "vmovaps", "vmovupd", "vmovapd", "vxorps", "vxorpd", "vandps", "vandpd", "vorps", "vorpd", "vandnps", "vandnpd", "vshufps",
                 "vshufpd", "vperm2f128", "vinsertf128", "vextractf128", "vbroadcastss", "vbroadcastsd", "vbroadcastf128", "vzeroupper", "vzeroall", "vblendps", "vblendpd",
                 "vunpcklps", "vunpckhps", "vunpcklpd", "vunpckhpd", "vmovntdq", "vmovntps", "vpermilps", "vpermilpd", "vtestps", "vptest", "vmovmskps", "vlddqu", "vmovddup",
                 "vmovshdup", "vmovsldup", "vaddps", "vmulps", "vsubps", "vmaskmovps", "vmaskmovpd", "vmovntpd", "vblendvps", "vblendvpd"}
BW_MNEM = re.compile(r"^v(p(add|sub|adds|subs|addus|subus|avg|abs|min[su]|max[su]|cmpeq|cmpgt|cmpu?|sll|srl|sra|mull|mulh|mulhu|mulhrs|madd|maddubs|sad|shuf|unpckl|unpckh|acks|ackus|blendm|test(n)?m|erm|ermi2|ermt2|broadcast|movm2|mov[su]?)?(b|w|bw|wb)$|movdqu(8|16)$|palignr$|pshufb$|pshufhw$|pshuflw$|pslldq$|psrldq$|dbpsadbw$|pmovwb$|pmovswb$|pmovuswb$|psllvw$|psrlvw$|psravw$|ptestmb$|ptestmw$|pmovb2m$|pmovw2m$)")
DQ_MNEM = {"vpmullq", "vinserti64x2", "vinserti32x8", "vextracti64x2", "vextracti32x8", "vinsertf64x2", "vinsertf32x8", "vextractf64x2", "vextractf32x8", "vbroadcasti32x2",
           "vbroadcasti64x2", "vbroadcasti32x8", "vbroadcastf32x2", "vbroadcastf64x2", "vbroadcastf32x8", "vpmovm2d", "vpmovm2q", "vpmovd2m", "vpmovq2m", "vcvtqq2pd", "vcvtuqq2pd",
           "vandps", "vandpd", "vorps", "vorpd", "vxorps", "vxorpd", "vandnps", "vandnpd", "vrangeps", "vrangepd", "vreduceps", "vreducepd", "vfpclassps", "vfpclasspd"}
CD_MNEM = {"vpconflictd", "vpconflictq", "vplzcntd", "vplzcntq", "vpbroadcastmb2q", "vpbroadcastmw2d"}
VNNI = {"vpdpbusd", "vpdpbusds", "vpdpwssd", "vpdpwssds"}
VBMI2 = {"vpshldq", "vpshldd", "vpshldw", "vpshrdq", "vpshrdd", "vpshrdw", "vpshldvq", "vpshldvd", "vpshldvw", "vpshrdvq", "vpshrdvd", "vpshrdvw", "vpcompressb", "vpcompressw", "vpexpandb", "vpexpandw"}
VBMI = {"vpermb", "vpermi2b", "vpermt2b", "vpmultishiftqb"}
BITALG = {"vpopcntb", "vpopcntw", "vpshufbitqmb"}
VPOPCNT = {"vpopcntd", "vpopcntq"}
GFNI = {"gf2p8affineqb", "gf2p8affineinvqb", "gf2p8mulb", "vgf2p8affineqb", "vgf2p8affineinvqb", "vgf2p8mulb"}
IFMA = {"vpmadd52luq", "vpmadd52huq"}
K_BW = {"kmovd", "kmovq", "kaddd", "kaddq", "kandd", "kandq", "kandnd", "kandnq", "knotd", "knotq", "kord", "korq", "kortestd", "kortestq", "kshiftld", "kshiftlq", "kshiftrd",
        "kshiftrq", "ktestd", "ktestq", "kunpckdq", "kunpckwd", "kxnord", "kxnorq", "kxord", "kxorq"}
K_DQ = {"kmovb", "kaddb", "kaddw", "kandb", "kandnb", "knotb", "korb", "kortestb", "kshiftlb", "kshiftrb", "ktestb", "ktestw", "kxnorb", "kxorb"}
K_F = {"kmovw", "kandw", "kandnw", "knotw", "korw", "kortestw", "kshiftlw", "kshiftrw", "kunpckbw", "kxnorw", "kxorw"}
SCALAR_OK = None  # everything not matched above and not vector-encoded is baseline x86-64


def encoding_class(raw):
    """'evex' | 'vex' | 'legacy' from the instruction bytes (64-bit mode)."""
    k = 0
    while k < len(raw) and raw[k] in (0x66, 0xF2, 0xF3, 0x2E, 0x36, 0x3E, 0x26, 0x64, 0x65, 0x67, 0xF0):
        k += 1
    if k < len(raw):
        b = raw[k]
        if b == 0x62:
            return "evex"
        if b in (0xC4, 0xC5):
            return "vex"
    return "legacy"


def features_of(i):
    """Set of CPU/OS features instruction i needs, or None if it cannot be classified."""
    mn, txt = i.mnem, i.text
    enc = encoding_class(i.raw)
    f = set()
    has_zmm, has_ymm, has_xmm = "zmm" in txt, "ymm" in txt, "xmm" in txt
    has_k = re.search(r"\bk[0-7]\b|\{k[0-7]\}", txt) is not None
    if enc == "evex":
        f |= {"AVX512F", "OS_ZMM"}
        if not has_zmm and (has_ymm or has_xmm) and not re.match(r"^v(mov|add|sub|mul|div|sqrt|max|min|cvt|fmadd|fmsub|rcp14|rsqrt14|getexp|getmant|scalef|rndscale|cmp|comi|ucomi|reduce|range|fpclass|fixupimm|fnmadd|fnmsub)\w*(ss|sd|si|sh)$", mn) and mn not in ("vmovd", "vmovq", "vpextrd", "vpextrq", "vpextrb", "vpextrw", "vpinsrd", "vpinsrq", "vpinsrb", "vpinsrw", "vextractps", "vinsertps"):
            f.add("AVX512VL")
        base = mn
        if mn in ("vpextrb", "vpextrw", "vpinsrb", "vpinsrw"):
            f.add("AVX512BW")
        elif mn in ("vpextrd", "vpextrq", "vpinsrd", "vpinsrq"):
            f.add("AVX512DQ")
        if BW_MNEM.match(mn) and mn not in ("vpermd", "vpermq"):
            f.add("AVX512BW")
        if mn in DQ_MNEM:
            f.add("AVX512DQ")
        if mn in CD_MNEM:
            f.add("AVX512CD")
        if mn in VNNI:
            f.add("AVX512VNNI")
        if mn in VBMI2:
            f.add("AVX512VBMI2")
        if mn in VBMI:
            f.add("AVX512VBMI")
        if mn in BITALG:
            f.add("AVX512BITALG")
        if mn in VPOPCNT:
            f.add("AVX512VPOPCNTDQ")
        if mn in IFMA:
            f.add("AVX512IFMA")
        if mn in GFNI:
            f.add("GFNI")
        if mn.startswith("vaes"):
            f.add("VAES" if (has_ymm or has_zmm) else "AES")
        if mn == "vpclmulqdq":
            f.add("VPCLMULQDQ" if (has_ymm or has_zmm) else "PCLMULQDQ")
        return f
    if mn in K_F:
        return {"AVX512F", "OS_ZMM"}
    if mn in K_BW:
        return {"AVX512F", "AVX512BW", "OS_ZMM"}
    if mn in K_DQ:
        return {"AVX512F", "AVX512DQ", "OS_ZMM"}
    if enc == "vex":
        if mn in BMI2:
            return {"BMI2"}
        if mn in BMI1:
            return {"BMI1"}
        f |= {"AVX", "OS_YMM"}
        if mn.startswith("vaes"):
            f.add("VAES" if has_ymm else "AES")
        elif mn == "vpclmulqdq":
            f.add("VPCLMULQDQ" if has_ymm else "PCLMULQDQ")
        elif mn in GFNI:
            f.add("GFNI")
        elif mn.startswith("vfm") or mn.startswith("vfnm"):
            f.add("FMA")
        elif mn in AVX2_ONLY:
            f.add("AVX2")
        elif has_ymm and mn not in AVX_FP_YMM_OK:
            if mn.startswith("vp") or mn in ("vmovntdqa", "vmpsadbw"):
                f.add("AVX2")
            elif not re.match(r"^v(add|sub|mul|div|sqrt|max|min|cvt|cmp|round|hadd|hsub|addsub|dp|rcp|rsqrt|movmsk|and|or|xor|andn)", mn):
                return None
        return f
    # legacy encodings
    if mn in SHA:
        return {"SHA"}
    if mn in AESNI:
        return {"AES"}
    if mn == "pclmulqdq":
        return {"PCLMULQDQ"}
    if mn in GFNI:
        return {"GFNI"}
    if mn in SSE42:
        return {"SSE4_2"}
    if mn in SSE41:
        return {"SSE4_1"}
    if mn in SSSE3:
        return {"SSSE3"}
    if mn in SSE3:
        return {"SSE3"}
    if mn == "popcnt":
        return {"POPCNT"}
    if mn in ("lzcnt",):
        return {"LZCNT"}
    if mn in ("tzcnt",):
        return {"BMI1"}
    if mn in ("adcx", "adox"):
        return {"ADX"}
    if mn == "movbe":
        return {"MOVBE"}
    if mn in ("xgetbv",):
        return {"OSXSAVE"}
    if mn in ("rdrand", "rdseed"):
        return {mn.upper()}
    if mn == "(bad)":
        return None
    return f
