"""Lift small scalar-only assembly functions (status/claim protocols, dispatch stubs) to C for CBMC.
Each shared-memory access becomes exactly one C statement through LOAD/STORE/CMPXCHG/XCHG macros that the
harness defines (atomicity + ghost monitors).  Unknown instructions abort the lift (never guessed)."""
import re
from elfobj import Obj, disassemble, reloc_target

R64 = ["rax", "rcx", "rdx", "rbx", "rsp", "rbp", "rsi", "rdi"] + ["r%d" % i for i in range(8, 16)]
R32 = ["eax", "ecx", "edx", "ebx", "esp", "ebp", "esi", "edi"] + ["r%dd" % i for i in range(8, 16)]
R16 = ["ax", "cx", "dx", "bx", "sp", "bp", "si", "di"] + ["r%dw" % i for i in range(8, 16)]
R8 = ["al", "cl", "dl", "bl", "spl", "bpl", "sil", "dil"] + ["r%db" % i for i in range(8, 16)]
REG = {}
for i, n in enumerate(R64):
    REG[n] = (R64[i], 64)
for i, n in enumerate(R32):
    REG[n] = (R64[i], 32)
for i, n in enumerate(R16):
    REG[n] = (R64[i], 16)
for i, n in enumerate(R8):
    REG[n] = (R64[i], 8)
CC = {"e": "zf", "z": "zf", "ne": "!zf", "nz": "!zf", "b": "cf", "c": "cf", "nae": "cf", "ae": "!cf", "nb": "!cf", "nc": "!cf",
      "a": "(!cf && !zf)", "nbe": "(!cf && !zf)", "be": "(cf || zf)", "na": "(cf || zf)", "s": "sf", "ns": "!sf",
      "l": "(sf != of)", "nge": "(sf != of)", "ge": "(sf == of)", "nl": "(sf == of)", "g": "(!zf && sf == of)", "nle": "(!zf && sf == of)",
      "le": "(zf || sf != of)", "ng": "(zf || sf != of)", "o": "of", "no": "!of"}
SIZES = {"BYTE": 8, "WORD": 16, "DWORD": 32, "QWORD": 64}


class LiftError(Exception):
    pass


class Lifter:
    def __init__(self, objpath):
        self.obj = Obj(objpath)
        self.insns, self.labels = disassemble(objpath)
        self.globals = {}   # C name -> (bits, init)

    def mem_global(self, i, op):
        m = re.match(r"^(BYTE|WORD|DWORD|QWORD) PTR \[rip\+0x[0-9a-f]+\]$", op)
        if not m:
            raise LiftError("unsupported memory operand %r in %r" % (op, i))
        bits = SIZES[m.group(1)]
        rel = [r for r in i.relocs if r[1] in ("R_X86_64_PC32", "R_X86_64_PLT32")]
        if not rel:
            raise LiftError("rip-relative operand without relocation in %r" % i)
        sym, off = reloc_target(i, rel[0])
        if sym.startswith("."):
            sec = self.obj.secbyname[sym]
            s = self.obj.sym_at(sec.idx, off)
            name = s.name if s else "%s_%x" % (sym.strip(".").replace(".", "_"), off)
            init = int.from_bytes(sec.data[off:off + bits // 8], "little") if sec.type != 8 else 0
        else:
            s = self.obj.sym(sym)
            if s is None:
                name, init = sym, None     # external
            else:
                sec = self.obj.sections[s.shndx]
                name = sym if off == 0 else "%s_%x" % (sym, off)
                init = int.from_bytes(sec.data[s.value + off:s.value + off + bits // 8], "little")
        self.globals[name] = (bits, init)
        return name, bits

    def rd(self, i, op):
        """C expression reading operand `op` (zero-extended to its width)."""
        if op in REG:
            r, b = REG[op]
            return ("(uint64_t) %s" % r if b == 64 else "(%s & 0x%xull)" % (r, (1 << b) - 1)), b
        if re.match(r"^-?(0x[0-9a-f]+|\d+)$", op):
            return "%dull" % (int(op, 0) & 0xffffffffffffffff), None
        if "PTR" in op:
            name, bits = self.mem_global(i, op)
            return "VLOAD%d(%s)" % (bits, name), bits
        raise LiftError("unsupported operand %r in %r" % (op, i))

    def wr(self, i, op, val):
        if op in REG:
            r, b = REG[op]
            if b == 64:
                return "%s = (uint64_t) (%s);" % (r, val)
            if b == 32:
                return "%s = (uint64_t) (uint32_t) (%s);" % (r, val)
            mask = (1 << b) - 1
            return "%s = (%s & ~0x%xull) | ((uint64_t) (%s) & 0x%xull);" % (r, r, mask, val, mask)
        if "PTR" in op:
            name, bits = self.mem_global(i, op)
            return "VSTORE%d(%s, %s);" % (bits, name, val)
        raise LiftError("unsupported destination %r in %r" % (op, i))

    def flags_logic(self, res, bits):
        return "zf = ((%s) & 0x%xull) == 0; sf = (((%s) >> %d) & 1); cf = 0; of = 0;" % (res, (1 << bits) - 1, res, bits - 1)

    def flags_sub(self, a, b, bits):
        m = (1 << bits) - 1
        return ("{ uint64_t A = (%s) & 0x%xull, B = (%s) & 0x%xull, R = (A - B) & 0x%xull; zf = R == 0; sf = (R >> %d) & 1; cf = A < B; "
                "of = (((A ^ B) & (A ^ R)) >> %d) & 1; }" % (a, m, b, m, m, bits - 1, bits - 1))

    def lift_function(self, name, nargs=0, returns="int", reachable_only=True):
        start = self.labels.get(name)
        if start is None:
            raise LiftError("no symbol " + name)
        # collect reachable instructions
        todo, seen = [start], set()
        while todo:
            a = todo.pop()
            while a in self.insns and a not in seen:
                seen.add(a)
                i = self.insns[a]
                nxt = a + i.size
                if i.mnem == "ret":
                    break
                if i.mnem == "jmp":
                    t = self.target(i)
                    if t is None:
                        raise LiftError("indirect jump in %r" % i)
                    todo.append(t)
                    break
                if i.mnem.startswith("j"):
                    todo.append(self.target(i))
                a = nxt
        body = []
        argregs = ["rdi", "rsi", "rdx", "rcx", "r8", "r9"][:nargs]
        for a in sorted(seen):
            i = self.insns[a]
            body.append("L_%x: ; /* %s %s */" % (a, " ".join(i.prefixes + [i.mnem]), i.text))
            body += ["        " + s for s in self.stmt(i)]
            nxt = a + i.size
            if i.mnem not in ("ret", "jmp") and nxt not in seen:
                raise LiftError("falls through to unreachable/undecoded code after %r" % i)
        params = ", ".join("uint64_t a%d" % k for k in range(nargs)) or "void"
        L = ["%s %s(%s)" % (returns, name, params), "{"]
        L.append("        uint64_t " + ", ".join("%s = %s" % (r, ("a%d" % argregs.index(r)) if r in argregs else "lift_stale()") for r in R64) + ";")
        L.append("        int zf = lift_stale() & 1, sf = lift_stale() & 1, cf = lift_stale() & 1, of = lift_stale() & 1;")
        L.append("        int lift_spins = 0, lift_post = 0; (void) lift_spins; (void) lift_post;")
        L.append("        goto L_%x;" % start)
        L += body
        L.append("}")
        return "\n".join(L)

    def target(self, i):
        m = re.match(r"^([0-9a-f]+)$", i.text.strip())
        return int(m.group(1), 16) if m else None

    def stmt(self, i):
        mn, ops = i.mnem, i.ops
        lock = "lock" in i.prefixes
        if mn in ("nop", "endbr64", "pause"):
            return ["VPAUSE();"] if mn == "pause" else []
        if mn == "ret":
            return ["return (int) (uint32_t) rax;"]
        if mn == "mov":
            v, _ = self.rd(i, ops[1])
            return [self.wr(i, ops[0], v)]
        if mn in ("test", "and", "or", "xor"):
            a, ba = self.rd(i, ops[0])
            b, bb = self.rd(i, ops[1])
            bits = ba or bb
            op = {"test": "&", "and": "&", "or": "|", "xor": "^"}[mn]
            out = ["{ uint64_t R = (%s) %s (%s); %s" % (a, op, b, self.flags_logic("R", bits))]
            if mn != "test":
                out.append(self.wr(i, ops[0], "R"))
            out.append("}")
            return out
        if mn in ("cmp", "sub"):
            a, ba = self.rd(i, ops[0])
            b, bb = self.rd(i, ops[1])
            bits = ba or bb
            out = ["{ uint64_t TA = %s, TB = %s;" % (a, b), self.flags_sub("TA", "TB", bits)]
            if mn == "sub":
                out.append(self.wr(i, ops[0], "TA - TB"))
            out.append("}")
            return out
        if mn == "cmpxchg":
            if "PTR" not in ops[0]:
                raise LiftError("cmpxchg on register")
            name, bits = self.mem_global(i, ops[0])
            src, _ = self.rd(i, ops[1])
            acc = {32: "eax", 64: "rax"}[bits]
            macro = "VCMPXCHG%d" % bits if lock else "VCMPXCHG_NOLOCK%d" % bits
            return ["{ uint64_t OLD; %s(%s, %s, %s, OLD, zf); if (!zf) { %s } cf = lift_stale() & 1; sf = lift_stale() & 1; of = lift_stale() & 1; }" % (
                macro, name, self.rd(i, acc)[0], src, self.wr(i, acc, "OLD"))]
        if mn == "xchg":
            memop = ops[0] if "PTR" in ops[0] else ops[1] if "PTR" in ops[1] else None
            if memop is None:
                a, _ = self.rd(i, ops[0])
                b, _ = self.rd(i, ops[1])
                return ["{ uint64_t TA = %s, TB = %s; %s %s }" % (a, b, self.wr(i, ops[0], "TB"), self.wr(i, ops[1], "TA"))]
            regop = ops[1] if memop == ops[0] else ops[0]
            name, bits = self.mem_global(i, memop)
            return ["{ uint64_t OLD; VXCHG%d(%s, %s, OLD); %s }" % (bits, name, self.rd(i, regop)[0], self.wr(i, regop, "OLD"))]
        if mn == "jmp":
            return ["goto L_%x;" % self.target(i)]
        if mn.startswith("j") and mn[1:] in CC:
            return ["if (%s) { VBACKEDGE(%d); goto L_%x; }" % (CC[mn[1:]], i.addr, self.target(i)) if self.target(i) <= i.addr else
                    "if (%s) goto L_%x;" % (CC[mn[1:]], self.target(i))]
        if mn.startswith("cmov") and mn[4:] in CC:
            v, _ = self.rd(i, ops[1])
            return ["if (%s) { %s } %s" % (CC[mn[4:]], self.wr(i, ops[0], v), ("else { %s }" % self.wr(i, ops[0], self.rd(i, ops[0])[0])) if REG.get(ops[0], (0, 0))[1] == 32 else "")]
        raise LiftError("instruction not supported by the C lifter: %r" % i)

    def globals_c(self, extern=()):
        L = []
        for n, (bits, init) in sorted(self.globals.items()):
            if init is None or n in extern:
                L.append("extern uint%d_t %s;" % (bits, n))
            else:
                L.append("uint%d_t %s = 0x%xu;" % (bits, n, init))
        return "\n".join(L)
