"""Cases and oracles for the AES entry points (key expansion, CBC, XTS) run by asmsym/aesrun.py.
Every case yields obligations tagged with the property they decide:
   C04/C03 data equality with the standard, C08 footprint, C20 stale dependence, C14 residue, C19 frame."""
import os, re, time
import z3
import common, loader, vecsym, aesprim, aesrun
from aesrun import Case, run_case, prove_equal, stale_dependence, residue
from bvutil import *

NK = {128: 4, 192: 6, 256: 8}
NR = {128: 10, 192: 12, 256: 14}


class Outcome:
    def __init__(self, case):
        self.case = case
        self.problems = []     # (property ids list, key, text)
        self.obligations = 0
        self.discharged = 0
        self.queries = 0
        self.solver_s = 0.0
        self.steps = 0
        self.error = None

    def bad(self, props, key, text):
        self.problems.append((props, key, text))


def build_image(asm_files, wd, extra=()):
    img = loader.Image()
    for f in asm_files:
        img.load(common.nasm_obj(f, wd, extra=extra))
    return img.finish()


def _common_monitors(out, res, outputs, keyvars, secrets, allowed_stale_outputs=()):
    """footprint, stale, residue, frame for one finished run. outputs: list of (label, value, bits)"""
    out.steps = res.steps
    if res.error:
        out.error = res.error
        return
    for (kind, a, n, what, desc) in res.violations:
        out.bad(["C08"], "footprint:%s:%s" % (kind, desc.split(" ")[0]), "%s of %d byte(s) at %s by '%s'" % (kind, n, desc, what))
    out.obligations += 1
    if not res.violations:
        out.discharged += 1
    for lab, val, bits in outputs:
        out.obligations += 1
        st = stale_dependence(val)
        if st:
            out.bad(["C20"], "stale:%s" % lab.split("[")[0], "%s depends on undefined state %s" % (lab, st[:3]))
        else:
            out.discharged += 1
    hits = residue(res, secrets, keyvars) if secrets else []
    out.queries += getattr(res, "residue_queries", 0)
    out.obligations += 1
    if hits:
        for where, lab in hits[:6]:
            out.bad(["C14"], "residue:%s:%s" % (re.sub(r"\[.*", "", where), lab.split("[")[0]), "%s holds %s when the function returns" % (where, lab))
    else:
        out.discharged += 1
    out.obligations += 1
    if res.frame:
        out.bad(["C19"], "frame", "; ".join(res.frame))
    else:
        out.discharged += 1


_SIM = {}


def _eq(out, props, key, label, got, want, bits, hyps=(), sim=None):
    out.obligations += 1
    if sim is None:
        sim = _SIM.setdefault("t", aesrun.CutTable(common.SEED))
    verdict, model, dt = prove_equal(got, want, bits, hyps=hyps, sim=sim)
    out.queries += 1
    out.solver_s += dt
    if verdict == "proved":
        out.discharged += 1
        return True
    if verdict == "refuted":
        out.bad(props, key, "%s differs from the standard's value (%s)" % (label, ("concrete counterexample: got %s, standard %s" % (model.get("lhs", "?")[:40], model.get("rhs", "?")[:40])) if isinstance(model, dict) else "solver model"))
    else:
        out.error = "solver unknown on %s" % label
    return False


# ------------------------------------------------------------------ key expansion
def keyexp_case(img, bits, fam, enc_only=False):
    func = "_aes_keyexp_%d%s_%s" % (bits, "_enc" if enc_only else "", fam)
    c = Case(func, func)
    nrk = NR[bits] + 1
    k = c.region("key", bits // 8, "secret_in", align_off=1)
    e = c.region("exp_key_enc", 16 * nrk, "out", align_off=3)
    c.args = [k, e]
    if not enc_only:
        d = c.region("exp_key_dec", 16 * nrk, "out", align_off=5)
        c.args.append(d)
    out = Outcome(func)
    if func not in img.symbols:
        out.error = "symbol %s not found" % func
        return out
    res = run_case(img, c)
    if res.error:
        out.error = res.error
        return out
    key = res.mem.get(res.regions["key"], 0, bits)
    rks = aesprim.key_expansion(key, NK[bits])
    drk = aesprim.dec_schedule(rks)
    outputs = []
    for r in range(nrk):
        got = res.mem.get(res.regions["exp_key_enc"], 16 * r, 128)
        outputs.append(("exp_key_enc[%d]" % r, got, 128))
        _eq(out, ["C04"], "keyexp:enc-round-key", "%s: encryption round key %d" % (func, r), got, rks[r], 128)
        if not enc_only:
            gd = res.mem.get(res.regions["exp_key_dec"], 16 * r, 128)
            outputs.append(("exp_key_dec[%d]" % r, gd, 128))
            _eq(out, ["C04"], "keyexp:dec-round-key", "%s: decryption round key %d" % (func, r), gd, drk[r], 128)
    keyvars = free_vars(key)
    secrets = [("round key %d" % r, rks[r]) for r in range(nrk)] + [("decryption round key %d" % r, drk[r]) for r in range(1, nrk - 1)]
    if bits >= 128:
        secrets.append(("raw key[0:16]", ext(key, 127, 0)))
    if bits == 256:
        secrets.append(("raw key[16:32]", ext(key, 255, 128)))
    _common_monitors(out, res, outputs, keyvars, secrets)
    return out


# ------------------------------------------------------------------ CBC
def _sched_region(c, name, nrk):
    return c.region(name, 16 * 15, "secret_in", align_off=0)


def cbc_case(img, func, bits, direction, nblocks, inplace, data_align=1):
    c = Case("%s len=%d %s" % (func, 16 * nblocks, "in-place" if inplace else "out-of-place"), func)
    n = 16 * nblocks
    nrk = NR[bits] + 1
    if inplace:
        buf = c.region("data", n, "inout", align_off=data_align)
        pin = pout = buf
    else:
        pin = c.region("in", n, "in", align_off=data_align)
        pout = c.region("out", n, "out", align_off=data_align + 2)
    iv = c.region("iv", 16, "in" if direction == "dec" else "inout", align_off=0)
    keys = c.region("keys", 16 * 15, "secret_in", align_off=0)
    c.args = [pin, iv, keys, pout, n]
    out = Outcome(c.name)
    if func not in img.symbols:
        out.error = "symbol %s not found" % func
        return out
    # read the symbolic inputs before the run (in-place runs overwrite them)
    probe = vecsym.Mem()
    res = run_case_with_snapshot(img, c)
    if res.error:
        out.error = res.error
        return out
    rk = [res.snap["keys"][r] for r in range(nrk)]
    ivv = res.snap["iv"][0]
    blocks = res.snap["data" if inplace else "in"]
    outname = "data" if inplace else "out"
    outputs = []
    prev = ivv
    for b in range(nblocks):
        got = res.mem.get(res.regions[outname], 16 * b, 128)
        outputs.append(("out[%d]" % b, got, 128))
        if direction == "enc":
            want = aesprim.encrypt_block(rk, bxor(blocks[b], prev, 128))
            prev = want
        else:
            want = bxor(aesprim.decrypt_block_eqinv(rk, blocks[b]), prev, 128)
            prev = blocks[b]
        _eq(out, ["C04"], "cbc:%s:block" % direction, "%s: output block %d of %d" % (c.name, b, nblocks), got, want, 128)
    keyvars = set()
    for r in rk:
        keyvars |= free_vars(r)
    secrets = [("round key %d" % r, rk[r]) for r in range(nrk)]
    _common_monitors(out, res, outputs, keyvars, secrets)
    # the input (when separate) must be unmodified: it is read-only in the region model (a write is a footprint violation)
    return out


def run_case_with_snapshot(img, case, prepare=None):
    """like run_case but remembers the initial 16-byte blocks of every input region (for in-place oracles)"""
    orig = aesrun.run_case
    snap = {}
    import vecsym as V

    class SnapMem(V.Mem):
        pass
    res = None
    # run_case builds the memory; take the snapshot through a hook on Machine.run
    old_run = V.Machine.run

    def hooked(self, entry, max_steps=2000000, stop_at_ret=True):
        for r in self.mem.regions:
            if r.kind in ("in", "inout", "secret_in", "state"):
                snap[r.name] = [self.mem.get(r, 16 * b, 128) for b in range(r.size // 16)]
                if r.size % 16:
                    snap[r.name + ":tail"] = self.mem.get(r, r.size - (r.size % 16), 8 * (r.size % 16))
        if prepare is not None:
            prepare(self, snap)
        return old_run(self, entry, max_steps, stop_at_ret)
    V.Machine.run = hooked
    try:
        res = orig(img, case)
    finally:
        V.Machine.run = old_run
    res.snap = snap
    return res


def key_expansion_cut(key, nk, ct, prefix):
    """FIPS-197 key expansion in which every derived round key becomes a cut symbol and the recurrence continues from
    the symbol (so that each cut's defining term is one expansion step over the previous symbols)."""
    nr = nk + 6
    w = [ext(key, 32 * i + 31, 32 * i) for i in range(nk)]
    rks = []
    for i in range(nk, 4 * (nr + 1)):
        t = w[i - 1]
        if i % nk == 0:
            t = bxor(aesprim.subword(bror(t, 8, 32)), aesprim.RCON[i // nk - 1], 32)
        elif nk > 6 and i % nk == 4:
            t = aesprim.subword(t)
        w.append(bxor(w[i - nk], t, 32))
        if i % 4 == 3:
            r = i // 4
            rk = cat([(w[4 * r + 3], 32), (w[4 * r + 2], 32), (w[4 * r + 1], 32), (w[4 * r], 32)])
            sym = ct.register("%s_rk%d" % (prefix, r), rk)
            for k in range(4):
                w[4 * r + k] = ext(sym, 32 * k + 31, 32 * k)
    out = []
    for r in range(nr + 1):
        out.append(cat([(w[4 * r + 3], 32), (w[4 * r + 2], 32), (w[4 * r + 1], 32), (w[4 * r], 32)]))
    return out


# ------------------------------------------------------------------ XTS (IEEE 1619)
def xts_mul_alpha(t):
    carry = ext(t, 127, 127)
    sh = bshl(t, 1, 128)
    if is_c(carry):
        return bxor(sh, 0x87, 128) if carry else sh
    return bite(carry == 1, bxor(sh, 0x87, 128), sh, 128)


def xts_div_alpha(t):
    b0 = ext(t, 0, 0)
    sh = bshr(t, 1, 128)
    if is_c(b0):
        return bor(bshr(bxor(t, 0x87, 128), 1, 128), 1 << 127, 128) if b0 else sh
    return bite(b0 == 1, bor(bshr(bxor(t, 0x87, 128), 1, 128), 1 << 127, 128), sh, 128)


_ALPHA_LEMMA = {}


def alpha_inverse_lemma():
    """z3: alpha^-1 * (alpha * x) == x for every 128-bit x (lets a tweak be defined from its successor)"""
    if "ok" not in _ALPHA_LEMMA:
        x = z3.BitVec("lemma_x", 128)
        s = z3.Solver()
        s.add(tz(xts_div_alpha(xts_mul_alpha(x)), 128) != x)
        _ALPHA_LEMMA["ok"] = s.check() == z3.unsat
    return _ALPHA_LEMMA["ok"]


def _bytes_of(v, nbytes):
    return [ext(v, 8 * k + 7, 8 * k) for k in range(nbytes)]


def _from_bytes(bs):
    return cat([(b, 8) for b in reversed(bs)])


def xts_spec(direction, rk1, rk2, tweak, blocks, tail, tail_bytes, Ts=None):
    """blocks: list of full 16-byte blocks; tail: value of the final partial block (tail_bytes bytes) or None.
    rk1: schedule for the data cipher (enc schedule for enc, equivalent-inverse schedule for dec); rk2: tweak enc schedule.
    Returns (out_blocks, out_tail)."""
    if Ts is None:
        T = aesprim.encrypt_block(rk2, tweak)
        Ts = [T]
        for _ in range(len(blocks) + 1):
            Ts.append(xts_mul_alpha(Ts[-1]))
    T = Ts[0]
    f = (lambda x: aesprim.encrypt_block(rk1, x)) if direction == "enc" else (lambda x: aesprim.decrypt_block_eqinv(rk1, x))
    m = len(blocks)
    out = []
    if tail is None:
        for j in range(m):
            out.append(bxor(f(bxor(blocks[j], Ts[j], 128)), Ts[j], 128))
        return out, None, T
    for j in range(m - 1):
        out.append(bxor(f(bxor(blocks[j], Ts[j], 128)), Ts[j], 128))
    b = tail_bytes
    ta, tb = (Ts[m - 1], Ts[m]) if direction == "enc" else (Ts[m], Ts[m - 1])
    cc = bxor(f(bxor(blocks[m - 1], ta, 128)), ta, 128)
    ccb = _bytes_of(cc, 16)
    out_tail = _from_bytes(ccb[:b])
    pp = _from_bytes(_bytes_of(tail, b) + ccb[b:])
    out.append(bxor(f(bxor(pp, tb, 128)), tb, 128))
    return out, out_tail, T


def xts_case(img, func, bits, direction, expanded, length, inplace, data_align=1):
    c = Case("%s len=%d %s" % (func, length, "in-place" if inplace else "out-of-place"), func)
    nrk = NR[bits] + 1
    ksz = 16 * nrk if expanded else bits // 8
    k2 = c.region("k2", ksz, "secret_in", align_off=0 if expanded else 3)
    k1 = c.region("k1", ksz, "secret_in", align_off=0 if expanded else 5)
    tw = c.region("tweak", 16, "in", align_off=7)
    n = max(length, 1)
    if inplace:
        pin = pout = c.region("data", n, "inout", align_off=data_align)
    else:
        pin = c.region("in", n, "in", align_off=data_align)
        pout = c.region("out", n, "out", align_off=data_align + 2)
    c.args = [k2, k1, tw, length, pin, pout]
    out = Outcome(c.name)
    if func not in img.symbols:
        out.error = "symbol %s not found" % func
        return out
    cutinfo = {}

    def prepare(machine, snap):
        ct = aesrun.CutTable(common.SEED)
        cutinfo["table"] = ct
        machine.cuts = ct
        if expanded:
            r2 = snap["k2"][:nrk]
            r1 = snap["k1"][:nrk]
            cutinfo["rk2"], cutinfo["rk1"] = r2, r1
            cutinfo["spec"] = (r1, r2, None, None, None)
        else:
            k2v = cat([(x, 128) for x in reversed(snap["k2"])]) if bits == 256 else snap["k2"][0]
            k1v = cat([(x, 128) for x in reversed(snap["k1"])]) if bits == 256 else snap["k1"][0]
            s2 = aesprim.key_expansion(k2v, NK[bits])
            s1e = aesprim.key_expansion(k1v, NK[bits])
            s1 = s1e if direction == "enc" else aesprim.dec_schedule(s1e)
            e2 = [simp(x) for x in key_expansion_cut(k2v, NK[bits], ct, "key2")]
            e1 = [simp(x) for x in key_expansion_cut(k1v, NK[bits], ct, "key1")]
            if direction == "enc":
                d1 = e1
            else:
                d1 = [e1[nrk - 1]] + [ct.register("key1_drk%d" % r, aesprim.aes_fn("IMC", e1[nrk - 1 - r])) for r in range(1, nrk - 1)] + [e1[0]]
            cutinfo["rk2"], cutinfo["rk1"], cutinfo["rk1e"] = e2, d1, e1
            cutinfo["spec"] = (s1, s2, s1e, k1v, k2v)
        # the tweak chain over cut symbols: T0 = E_K2(tweak), T_{j+1} = alpha * T_j
        tw = snap["tweak"][0]
        T = ct.register("T0", aesprim.encrypt_block(cutinfo["rk2"], tw))
        Ts = [T]
        for j in range(1, length // 16 + 2):
            T = ct.register("T%d" % j, xts_mul_alpha(Ts[-1]))
            Ts.append(T)
        if alpha_inverse_lemma():     # the decrypt-with-stealing paths derive T_{m-1} from T_m
            for j in range(len(Ts) - 1):
                ct.alias("T%d from T%d" % (j, j + 1), xts_div_alpha(Ts[j + 1]), Ts[j])
        cutinfo["T"] = Ts
    res = run_case_with_snapshot(img, c, prepare)
    if res.error:
        out.error = res.error
        return out
    dname, oname = ("data", "data") if inplace else ("in", "out")
    # the data path is compared over the cut symbols; each symbol was proved (z3) equal to its defining specification
    # term (FIPS-197 round key, E_K2(tweak), alpha * T_j) wherever the implementation produced that value
    rk2, rk1 = cutinfo["rk2"], cutinfo["rk1"]
    s1, s2, rk1e_spec, key1v, key2v = cutinfo["spec"]
    out.queries += cutinfo["table"].proved
    out.solver_s += cutinfo["table"].solver_s
    tweak = res.snap["tweak"][0]
    outputs = []
    keyvars = set()
    for r in list(rk1) + list(rk2):
        keyvars |= free_vars(r)
    if length < 16:
        # no-op clause: neither buffer touched
        touched = [r for r in (res.regions.get("in"), res.regions.get("out"), res.regions.get("data")) if r is not None and (r.read or r.written)]
        out.obligations += 1
        if touched:
            out.bad(["C03", "C08"], "xts:short-noop", "%s: data unit shorter than 16 bytes but buffer(s) %s accessed" % (c.name, [r.name for r in touched]))
        else:
            out.discharged += 1
        _common_monitors(out, res, [], keyvars, [("round key", k) for k in list(rk1) + list(rk2)])
        return out
    m, b = length // 16, length % 16
    blocks = res.snap[dname][:m]
    tail = None
    if b:
        reg = res.regions[dname]
        tail = res.snap.get(dname + ":tail")
        if tail is None:   # region size is a multiple of 16 only when b == 0
            tail = None
    want, want_tail, T0 = xts_spec(direction, rk1, rk2, tweak, blocks, tail, b, cutinfo["T"])
    hyps = cutinfo["table"].hypotheses()
    for j in range(m):
        got = res.mem.get(res.regions[oname], 16 * j, 128)
        outputs.append(("out[%d]" % j, got, 128))
        _eq(out, ["C03"], "xts:%s:block" % direction, "%s: output block %d of %d%s" % (c.name, j, m, " (+%d stolen bytes)" % b if b else ""), got, want[j], 128, hyps, cutinfo["table"])
    if b:
        got = res.mem.get(res.regions[oname], 16 * m, 8 * b)
        outputs.append(("out[tail]", got, 8 * b))
        _eq(out, ["C03"], "xts:%s:stolen-tail" % direction, "%s: final partial block (%d bytes)" % (c.name, b), got, want_tail, 8 * b, hyps, cutinfo["table"])
        # exactly len bytes written
    secrets = [("key1 round key %d" % r, rk1[r]) for r in range(nrk)] + [("key2 round key %d" % r, rk2[r]) for r in range(nrk)] + [("encrypted tweak", T0)]
    if key1v is not None:
        secrets += [("raw key1[0:16]", ext(key1v, 127, 0)), ("raw key2[0:16]", ext(key2v, 127, 0))]
        if bits == 256:
            secrets += [("raw key1[16:32]", ext(key1v, 255, 128)), ("raw key2[16:32]", ext(key2v, 255, 128))]
        if direction == "dec":
            secrets += [("key1 encryption round key %d" % r, x) for r, x in enumerate(cutinfo.get("rk1e", [])) if 0 < r < nrk - 1]
        keyvars |= free_vars(key1v) | free_vars(key2v)
    for k_ in list(rk1) + list(rk2) + [T0]:
        keyvars |= free_vars(k_)
    keyvars |= set("cut_" + l.replace(" ", "_") for l in cutinfo["table"].symbols)
    _common_monitors(out, res, outputs, keyvars, secrets)
    return out
