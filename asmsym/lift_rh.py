"""Lift the rolling-hash scan kernels (rolling_hash2_until_00/_04.asm: scalar + BMI2 pext/rorx) from the assembled object to C,
so that CBMC can decide the C09 induction step with the assembly scan in place of the portable C scan.
System V entry convention: rdi rsi rdx rcx r8 r9 + three stack arguments.  Registers are uint64_t locals; a memory operand whose
base register is a pointer argument that no instruction of the function writes is emitted as pointer arithmetic on the original
C pointer (so CBMC keeps the object identity); rsp-relative operands go to a small stack array.  Anything else aborts the lift."""
import re
from lift_c import Lifter, LiftError, REG, R64, CC, SIZES

PTR_ARGS = {"rdi": ("uint32_t *", "a0"), "rdx": ("uint64_t *", "a2"), "rcx": ("uint64_t *", "a3"), "r8": ("uint8_t *", "a4"), "r9": ("uint8_t *", "a5")}
FLAGSTALE = "zf = lift_stale() & 1; sf = lift_stale() & 1; cf = lift_stale() & 1; of = lift_stale() & 1;"


class RH(Lifter):
    def written_regs(self, seen):
        w = set()
        for a in seen:
            i = self.insns[a]
            if i.mnem in ("cmp", "test", "push", "ret") or i.mnem.startswith("j"):
                continue
            if i.ops and i.ops[0] in REG:
                w.add(REG[i.ops[0]][0])
            if i.mnem == "pop":
                w.add(REG[i.ops[0]][0])
        return w

    def mem(self, i, op):
        m = re.match(r"^(BYTE|WORD|DWORD|QWORD) PTR \[(.*)\]$", op)
        if not m:
            raise LiftError("unsupported memory operand %r in %r" % (op, i))
        bits = SIZES[m.group(1)]
        base, idx, scale, disp = None, None, 1, 0
        for sign, term in re.findall(r"([+-]?)([^+-]+)", m.group(2)):
            term = term.strip()
            if re.match(r"^(0x[0-9a-f]+|\d+)$", term):
                disp += (-1 if sign == "-" else 1) * int(term, 0)
            elif "*" in term:
                r, s = term.split("*")
                idx, scale = r, int(s)
            elif term in REG and REG[term][1] == 64:
                if base is None:
                    base = term
                else:
                    idx = term
            else:
                raise LiftError("unsupported address term %r in %r" % (term, i))
        if base == "rsp":
            if idx is not None or disp % 8 or bits != 64:
                raise LiftError("unsupported stack operand in %r" % i)
            return "stk[sp + %d]" % (disp // 8), bits
        if base not in self.ptr_ok:
            raise LiftError("memory operand whose base %r is not an unmodified pointer argument in %r" % (base, i))
        off = "%dll" % disp
        if idx is not None:
            off = "(int64_t) (%s * %dull) + %s" % (idx, scale, off)
        ctype = {8: "uint8_t", 16: "uint16_t", 32: "uint32_t", 64: "uint64_t"}[bits]
        return "(*(%s *) ((char *) %s + (%s)))" % (ctype, PTR_ARGS[base][1], off), bits

    def rd(self, i, op):
        if "PTR" in op:
            return self.mem(i, op)
        return Lifter.rd(self, i, op)

    def wr(self, i, op, val):
        if "PTR" in op:
            lv, bits = self.mem(i, op)
            return "%s = (%s);" % (lv, val)
        return Lifter.wr(self, i, op, val)

    def stmt(self, i):
        mn, ops = i.mnem, i.ops
        if mn in ("nop", "endbr64"):
            return []
        if mn == "ret":
            return ["return rax;"]
        if mn == "push":
            return ["sp--; stk[sp] = %s;" % self.rd(i, ops[0])[0]]
        if mn == "pop":
            return [self.wr(i, ops[0], "stk[sp]"), "sp++;"]
        if mn == "mov":
            v, _ = self.rd(i, ops[1])
            return [self.wr(i, ops[0], v)]
        if mn == "movzx":
            v, _ = self.rd(i, ops[1])
            return [self.wr(i, ops[0], "(uint64_t) (%s)" % v)]
        if mn in ("xor", "and", "or", "add", "sub"):
            a, ba = self.rd(i, ops[0])
            b, bb = self.rd(i, ops[1])
            op = {"xor": "^", "and": "&", "or": "|", "add": "+", "sub": "-"}[mn]
            return ["{ uint64_t R = (%s) %s (%s); %s" % (a, op, b, FLAGSTALE), self.wr(i, ops[0], "R"), "}"]     # flags of these are never consumed here: left undefined
        if mn == "cmp":
            a, ba = self.rd(i, ops[0])
            b, bb = self.rd(i, ops[1])
            return ["{ uint64_t TA = %s, TB = %s;" % (a, b), self.flags_sub("TA", "TB", ba or bb), "}"]
        if mn == "ror":
            a, ba = self.rd(i, ops[0])
            n = int(ops[1], 0) & 63
            if ba != 64 or n == 0:
                raise LiftError("unsupported rotate %r" % i)
            return ["{ uint64_t R = ((%s) >> %d) | ((%s) << %d); %s" % (a, n, a, 64 - n, FLAGSTALE), self.wr(i, ops[0], "R"), "}"]
        if mn == "rorx":
            a, ba = self.rd(i, ops[1])
            n = int(ops[2], 0) & 63
            if ba != 64 or n == 0:
                raise LiftError("unsupported rotate %r" % i)
            return [self.wr(i, ops[0], "((%s) >> %d) | ((%s) << %d)" % (a, n, a, 64 - n))]
        if mn == "pext":
            a, ba = self.rd(i, ops[1])
            b, bb = self.rd(i, ops[2])
            return [self.wr(i, ops[0], "lift_pext%d(%s, %s)" % (ba, a, b))]
        if mn == "jmp":
            t = self.target(i)
            return ["goto L_%x;" % t]
        if mn.startswith("j") and mn[1:] in CC:
            return ["if (%s) goto L_%x;" % (CC[mn[1:]], self.target(i))]
        raise LiftError("unsupported instruction %r" % i)

    def lift_scan(self, sym, cname):
        start = self.labels.get(sym)
        if start is None:
            raise LiftError("no symbol " + sym)
        todo, seen = [start], set()
        while todo:
            a = todo.pop()
            while a in self.insns and a not in seen:
                seen.add(a)
                i = self.insns[a]
                if i.mnem == "ret":
                    break
                if i.mnem == "jmp":
                    todo.append(self.target(i))
                    break
                if i.mnem.startswith("j"):
                    todo.append(self.target(i))
                a += i.size
        wr = self.written_regs(seen)
        self.ptr_ok = set(r for r in PTR_ARGS if r not in wr)
        body = []
        for a in sorted(seen):
            i = self.insns[a]
            body.append("L_%x: ; /* %s %s */" % (a, i.mnem, i.text))
            body += ["        " + s for s in self.stmt(i)]
            if i.mnem not in ("ret", "jmp") and a + i.size not in seen:
                raise LiftError("falls through to undecoded code after %r" % i)
        L = ["/* lifted from the assembled object by asmsym/lift_rh.py: %s */" % sym,
             "static uint64_t lift_pext64(uint64_t v, uint64_t m) { uint64_t r = 0; unsigned k = 0; /* unrolled: no loop bound needed */\n" +
             "".join("        if ((m >> %d) & 1) { r |= ((v >> %d) & 1) << k; k++; }\n" % (b, b) for b in range(64)) + "        return r; }",
             "static uint64_t lift_pext32(uint64_t v, uint64_t m) { return lift_pext64(v & 0xffffffffull, m & 0xffffffffull); }",
             "uint64_t %s(uint32_t *a0, int a1, uint64_t *a2, uint64_t *a3, uint8_t *a4, uint8_t *a5, uint64_t a6, uint64_t a7, uint64_t a8)" % cname, "{",
             "        uint64_t stk[24]; int sp = 16;",
             "        stk[16] = lift_stale(); stk[17] = a6; stk[18] = a7; stk[19] = a8;",
             "        /* int argument: the upper half of rsi is whatever the caller left; compilers zero- or sign-extend: modelled as zero-extension of the (non-negative) length */",
             "        uint64_t rdi = (uint64_t) a0, rsi = (uint64_t) (uint32_t) a1, rdx = (uint64_t) a2, rcx = (uint64_t) a3, r8 = (uint64_t) a4, r9 = (uint64_t) a5;",
             "        uint64_t " + ", ".join("%s = lift_stale()" % r for r in R64 if r not in ("rdi", "rsi", "rdx", "rcx", "r8", "r9", "rsp")) + ";",
             "        int zf = lift_stale() & 1, sf = lift_stale() & 1, cf = lift_stale() & 1, of = lift_stale() & 1;",
             "        (void) rdi; (void) rdx; (void) rcx; (void) r8; (void) r9; (void) cf;",
             "        goto L_%x;" % start] + body + ["}"]
        return "\n".join(L)


def lift(objpath, sym, cname):
    return RH(objpath).lift_scan(sym, cname)
