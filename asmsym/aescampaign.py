"""AES campaign: every case (entry point x length x in-place) is one symbolic run of the assembled object with z3
obligations (aescases.py).  Cases run in parallel worker processes; problems are attributed to the property in
their tag list."""
import os, re, sys, time, json, multiprocessing, traceback
import common
from common import scratch
import aescases

_IMG = {}


def _image(files, wd):
    k = tuple(files)
    if k not in _IMG:
        _IMG[k] = aescases.build_image(list(files), wd)
    return _IMG[k]


def gcm_init_case(img, func, aad_len):
    import aesrun, aesprim, z3
    from bvutil import ext, cat, free_vars
    c = aesrun.Case("%s aad_len=%d" % (func, aad_len), func)
    kd = c.region("key_data", 1264, "secret_in")
    ctx = c.region("context", 88, "out", align_off=0)
    iv = c.region("iv", 12, "in", align_off=0x1000 - 12 - 0)      # ends flush with its page: reading beyond the 12 bytes leaves the region
    aad = c.region("aad", aad_len, "in", align_off=1)
    c.args = [kd, ctx, iv, aad, aad_len]
    out = aescases.Outcome(c.name)
    if func not in img.symbols:
        out.error = "symbol %s not found" % func
        return out
    res = aescases.run_case_with_snapshot(img, c)
    if res.error:
        out.error = res.error
        return out
    R = res.regions["context"]
    g = lambda off, bits: res.mem.get(R, off, bits)
    ivv = res.mem.get(res.regions["iv"], 0, 96)
    j0 = cat([(0x01000000, 32), (ivv, 96)])          # IV || 0^31 1 (the 32-bit counter is big-endian)
    outputs = [("ctx.aad_hash", g(0, 128), 128), ("ctx.aad_length", g(16, 64), 64), ("ctx.in_length", g(24, 64), 64),
               ("ctx.orig_IV", g(48, 128), 128), ("ctx.current_counter", g(64, 128), 128), ("ctx.partial_block_length", g(80, 64), 64)]
    aescases._eq(out, ["C07"], "gcm-init:aad_length", "%s: context aad_length" % c.name, g(16, 64), aad_len, 64)
    aescases._eq(out, ["C07"], "gcm-init:in_length", "%s: context in_length" % c.name, g(24, 64), 0, 64)
    aescases._eq(out, ["C07"], "gcm-init:partial_block_length", "%s: context partial_block_length is cleared" % c.name, g(80, 64), 0, 64)
    aescases._eq(out, ["C07", "C02"], "gcm-init:orig_IV", "%s: J0 = IV || 0^31 1" % c.name, g(48, 128), j0, 128)
    # the running counter is kept byte-reflected by the implementation (internal representation of the context)
    j0r = cat([(ext(j0, 8 * k + 7, 8 * k), 8) for k in range(16)])
    aescases._eq(out, ["C07", "C02"], "gcm-init:current_counter", "%s: counter starts at J0 (byte-reflected form)" % c.name, g(64, 128), j0r, 128)
    kdv = res.snap["key_data"]
    keyvars = set()
    for x in kdv:
        keyvars |= free_vars(x)
    secrets = [("key_data block %d (round key / hash-key power)" % k, x) for k, x in enumerate(kdv[:32])]
    aescases._common_monitors(out, res, outputs, keyvars, secrets)
    return out


def cases(tier, only=None):
    """list of (kind, files, params)"""
    L = []
    q = tier == "quick"
    if only is None or "keyexp" in only:
        for bits in (128, 192, 256):
            for fam in ("sse", "avx"):
                L.append(("keyexp", ("aes/keyexp_%d.asm" % bits,), (bits, fam, False)))
                if bits == 128:
                    L.append(("keyexp", ("aes/keyexp_%d.asm" % bits,), (bits, fam, True)))
    if only is None or "cbc" in only:
        nbs = [1, 2, 3, 4, 5, 8, 9, 16, 17] if q else list(range(1, 35))
        for bits in (128, 192, 256):
            for x in ("x4", "x8"):
                for nb in ([1, 2, 5, 9] if q else nbs):
                    for ip in (False, True):
                        L.append(("cbc", ("aes/cbc_enc_%d_%s_sb.asm" % (bits, x),), ("_aes_cbc_enc_%d_%s" % (bits, x), bits, "enc", nb, ip)))
            for fam in ("sse", "avx"):
                for nb in nbs:
                    for ip in (False, True):
                        L.append(("cbc", ("aes/cbc_dec_%d_x8_%s.asm" % (bits, fam),), ("_aes_cbc_dec_%d_%s" % (bits, fam), bits, "dec", nb, ip)))
            for nb in (nbs + [18, 32, 33] if q else nbs + [48, 49, 65]):
                for ip in (False, True):
                    L.append(("cbc", ("aes/cbc_dec_vaes_avx512.asm",), ("_aes_cbc_dec_%d_vaes_avx512" % bits, bits, "dec", nb, ip)))
    if only is None or "xts" in only:
        lens = [0, 7, 15, 16, 17, 31, 32, 33, 48, 127, 128, 129, 144, 255, 256, 258, 271] if q else \
            [0, 1, 15] + list(range(16, 50)) + [63, 64, 65, 127, 128, 129, 130, 143, 144, 145, 255, 256, 257, 258, 271, 272, 273, 287, 511, 512, 513, 527, 543]
        for fam in ("sse", "avx", "vaes"):
            for bits in (128, 256):
                for d in ("enc", "dec"):
                    for ek in ("", "_expanded_key"):
                        f = "aes/XTS_AES_%d_%s%s_%s.asm" % (bits, d, ek, fam)
                        fn = "_XTS_AES_%d_%s%s_%s" % (bits, d, ek, fam)
                        for ln in lens:
                            for ip in ((False, True) if ln >= 16 else (False,)):
                                L.append(("xts", (f,), (fn, bits, d, bool(ek), ln, ip)))
    if only is None or "gcminit" in only:
        aads = [0, 1, 5, 8, 12, 13, 16, 17, 20, 32, 33] if q else list(range(0, 50)) + [63, 64, 65, 127, 128, 129]
        for bits in (128, 256):
            for fam in ("sse", "avx_gen2", "avx_gen4", "vaes_avx512"):
                for a in aads:
                    L.append(("gcminit", ("aes/gcm%d_%s.asm" % (bits, fam),), ("_aes_gcm_init_%d_%s" % (bits, fam), a)))
    if only is not None and "hashkernel" in only:
        import hashk
        for k_ in hashk.KERNELS:
            alg, func, ln = k_[:3]
            rs = k_[3] if len(k_) > 3 else None
            f = ("%s_mb/%s.asm" % (alg, func),)
            if q:
                if func in hashk.QUICK:      # the other kernels (AVX-512, MD5, SM3: 16-32 lanes) take minutes each: thorough tier
                    L.append(("hashkernel", f, (alg, func, ln, 1, True, rs)))
            else:
                L.append(("hashkernel", f, (alg, func, ln, 1, False, rs)))
                if func in hashk.QUICK:      # two blocks per lane (closes the block loop) for the 4-8 lane kernels; the 16-32 lane kernels: one block (run time)
                    L.append(("hashkernel", f, (alg, func, ln, 2, True, rs)))
    if only is not None and "mhkernel" in only:
        import hashk
        for (alg, fpat, fnpat) in hashk.MH_KERNELS:
            for fam in hashk.MH_FAMS:
                # quick: one 1024-byte block; thorough: two blocks in one call (closes the block loop: state carried in registers / reloaded)
                L.append(("mhkernel", (fpat % fam,), (alg, "_" + fnpat % fam, 1 if (q or alg != "sha1") else 2)))     # mh_sha256 two-block runs: no result within 50 min
    if only is not None and "murkernel" in only:
        import hashk
        for fam in hashk.MH_FAMS:
            L.append(("murkernel", ("mh_sha1_murmur3_x64_128/mh_sha1_murmur3_x64_128_block_%s.asm" % fam,), ("sha1", "_mh_sha1_murmur3_x64_128_block_%s" % fam, 1 if q else 2, True)))
    if only is None or "gcmdata" in only or "gcmstream" in only:
        for (k, f, p_) in gcm_cases(tier):
            if only is None or k in only:
                L.append((k, f, p_))
    return L


def _work(arg):
    kind, files, params, wd = arg
    try:
        d = os.path.join(wd, "p%d" % os.getpid())
        os.makedirs(d, exist_ok=True)
        img = _image(files, d)
        t = time.time()
        if kind == "keyexp":
            o = aescases.keyexp_case(img, *params)
        elif kind == "cbc":
            o = aescases.cbc_case(img, *params)
        elif kind == "xts":
            o = aescases.xts_case(img, *params)
        elif kind == "gcminit":
            o = gcm_init_case(img, *params)
        elif kind == "hashkernel":
            import hashk
            o = hashk.kernel_case(img, *params)
        elif kind in ("mhkernel", "murkernel"):
            import hashk
            o = hashk.mh_case(img, *params)
        elif kind == "gcmdata":
            o = gcm_data_case(img, *params)
        elif kind == "gcmstream":
            gcm_data_case.force_stream = True
            try:
                o = gcm_data_case(img, *params)
            finally:
                gcm_data_case.force_stream = False
        else:
            raise KeyError(kind)
        return {"kind": kind, "file": files[0], "case": o.case, "error": o.error, "problems": o.problems, "obligations": o.obligations, "discharged": o.discharged,
                "queries": o.queries, "solver_s": o.solver_s, "steps": o.steps, "wall": time.time() - t}
    except common.BuildError as ex:
        return {"kind": kind, "file": files[0], "case": str(params), "error": "build: %s" % str(ex)[-300:], "problems": [], "obligations": 0, "discharged": 0, "queries": 0, "solver_s": 0, "steps": 0, "wall": 0}
    except Exception as ex:
        return {"kind": kind, "file": files[0], "case": str(params), "error": "engine error: %s: %s | %s" % (type(ex).__name__, str(ex)[:200], traceback.format_exc()[-400:]),
                "problems": [], "obligations": 0, "discharged": 0, "queries": 0, "solver_s": 0, "steps": 0, "wall": 0}


def run(pid, tier, ev, vd, only=None, also_tags=()):
    wd = scratch(pid.lower() + "aes")
    cl = cases(tier, only)
    args = [(k, f, p, wd) for (k, f, p) in cl]
    with multiprocessing.get_context("fork").Pool(common.NPROC) as pool:
        res = pool.map(_work, args, chunksize=2 if len(args) > 64 else 1)
    nprob = 0
    for r in res:
        ev.add("states", 1)
        ev.add("transitions", max(r["steps"], 1))
        ev.add("obligations", r["obligations"])
        ev.add("queries", r["queries"])
        ev.cov["solver_s"] += r["solver_s"]
        ev.extend_unique("units", [r["file"]])
        ev.extend_unique("functions_encoded", [r["case"].split(" ")[0]])
        if r["error"]:
            vd.inconcl("%s: %s" % (r["case"], r["error"][:300]))
            continue
        mine = [(props, key, text) for (props, key, text) in r["problems"] if pid in props]
        others = [(props, key, text) for (props, key, text) in r["problems"] if pid not in props]
        for props, key, text in others[:3]:
            ev.extend_unique("failures_attributed_to_other_properties", ["%s: %s" % ("/".join(props), text[:160])])
        ev.add("discharged", r["discharged"])
        if not mine:
            ev.sample({"case": r["case"], "unit": r["file"], "instructions_executed": r["steps"], "obligations": r["obligations"], "z3_queries": r["queries"], "verdict": "all discharged" if not r["problems"] else "other-property findings only"}, limit=8)
        for props, key, text in mine:
            fn = r["case"].split(" ")[0]
            k = "%s:%s:%s" % (pid, fn, key)
            rp = common.save_replay(pid, k, {"case": r["case"], "unit": r["file"], "problem": text, "properties": props,
                                             "note": "symbolic run of the freshly assembled object; re-run: ./check %s (case list is deterministic)" % pid})
            vd.violation(k, text[:400], rp)
    ev.cov["cases"] = len(cl)
    ev.cov["bounds"].update({"lengths": "per kind, see asmsym/aescampaign.cases(tier=%s)" % tier, "keys/IV/tweak/data": "fully symbolic (AES round functions and S-box as uninterpreted functions)",
                             "pointers": "concrete synthetic addresses, unaligned, regions separated by guard gaps"})
    ev.extend_unique("stubs", ["aesenc/aesenclast/aesdec/aesdeclast/aesimc = uninterpreted 128-bit functions xor round key; aeskeygenassist over an uninterpreted byte S-box; pclmulqdq exact for concrete operands, uninterpreted otherwise"])
    return ev, vd


# ------------------------------------------------------------------ GCM data path (CTR part; the tag value is outside)
def gcm_data_case(img, bits, fam, direction, pieces, aad_len=13, tag_len=16, inplace=False):
    """pieces: None/[len] = one-shot call, else init + update per piece + finalize on one context.  Decides: output bytes
    == in XOR E_K(inc32^i(J0)) for the concatenated stream, exactly len bytes and tag_len tag bytes written, footprint, stale, residue.
    The tag VALUE (GHASH) is not compared."""
    import aesrun, aesprim
    from bvutil import ext, cat, bxor, free_vars
    total = sum(pieces)
    oneshot = len(pieces) == 1 and pieces[0] is not None and not getattr(gcm_data_case, "force_stream", False)
    name = "_aes_gcm_%s_%d_%s %s len=%s aad=%d tag=%d%s" % (direction, bits, fam, "one-shot" if oneshot else "stream", "+".join(map(str, pieces)), aad_len, tag_len, " in-place" if inplace else "")
    c = aesrun.Case(name, "_aes_gcm_%s_%d_%s" % (direction, bits, fam))
    kd = c.region("key_data", 1264, "secret_in")
    ctx = c.region("context", 88, "out")
    if inplace:
        pin = pout = c.region("data", total, "inout", align_off=1)
    else:
        pin = c.region("in", total, "in", align_off=1)
        pout = c.region("out", total, "out", align_off=3)
    iv = c.region("iv", 12, "in", align_off=0x1000 - 12)
    aad = c.region("aad", aad_len, "in", align_off=1)
    tag = c.region("tag", tag_len, "out", align_off=5)
    if oneshot:
        c.args = [kd, ctx, pout, pin, total, iv, aad, aad_len, tag, tag_len]
    else:
        calls = [("_aes_gcm_init_%d_%s" % (bits, fam), [kd, ctx, iv, aad, aad_len])]
        off = 0
        for l in pieces:
            calls.append(("_aes_gcm_%s_%d_update_%s" % (direction, bits, fam), [kd, ctx, pout + off, pin + off, l]))
            off += l
        calls.append(("_aes_gcm_%s_%d_finalize_%s" % (direction, bits, fam), [kd, ctx, tag, tag_len]))
        c.args = calls[0][1]
        c.func = calls[0][0]
        c.calls = [(calls[0][0], None)] + calls[1:]
    out = aescases.Outcome(name)
    res = aescases.run_case_with_snapshot(img, c)
    if res.error:
        out.error = res.error
        return out
    nrk = aescases.NR[bits] + 1
    rk = res.snap["key_data"][:nrk]
    ivv = res.mem.get(res.regions["iv"], 0, 96)
    dname, oname = ("data", "data") if inplace else ("in", "out")
    outputs = []
    for b in range((total + 15) // 16):
        n = min(16, total - 16 * b)
        got = res.mem.get(res.regions[oname], 16 * b, 8 * n)
        ctr = cat([(int.from_bytes(((b + 2) & 0xffffffff).to_bytes(4, "big"), "little"), 32), (ivv, 96)])
        ks = aesprim.encrypt_block(rk, ctr)
        src = res.snap[dname][b] if n == 16 else res.snap.get(dname + ":tail")
        want = bxor(src, ext(ks, 8 * n - 1, 0), 8 * n)
        outputs.append(("out[%d]" % b, got, 8 * n))
        aescases._eq(out, ["C07"], "gcm:%s:ctr-block" % direction, "%s: output block %d equals in XOR E_K(J0+%d)" % (name, b, b + 1), got, want, 8 * n)
    tg = res.mem.get(res.regions["tag"], 0, 8 * tag_len)
    outputs.append(("tag", tg, 8 * tag_len))
    out.obligations += 1
    if len(res.regions["tag"].written) != tag_len:
        out.bad(["C08"], "gcm:tag-bytes", "%s: %d tag bytes written instead of %d" % (name, len(res.regions["tag"].written), tag_len))
    else:
        out.discharged += 1
    kdv = res.snap["key_data"]
    keyvars = set()
    for x in kdv:
        keyvars |= free_vars(x)
    secrets = [("key_data block %d (round key / hash-key power)" % k, x) for k, x in enumerate(kdv[:79])]
    aescases._common_monitors(out, res, outputs, keyvars, secrets)
    return out


def gcm_cases(tier):
    L = []
    q = tier == "quick"
    for bits in (128, 256):
        for fam in ("sse", "avx_gen2", "avx_gen4", "vaes_avx512"):
            f = ("aes/gcm%d_%s.asm" % (bits, fam),)
            lens = [0, 1, 15, 16, 17, 33, 64, 127, 128, 129, 143, 144, 255, 256, 257, 271] if q else list(range(0, 40)) + [63, 64, 65, 127, 128, 129, 143, 144, 145, 255, 256, 257, 271, 272, 273, 287, 511, 512, 513]
            if fam == "vaes_avx512":
                lens = lens + [768, 769, 783]
            for d in ("enc", "dec"):
                for ln in lens:
                    L.append(("gcmdata", f, (bits, fam, d, [ln], 13, 16, False)))
                for ln in (17, 144):
                    L.append(("gcmdata", f, (bits, fam, d, [ln], 0, 12, True)))
                    L.append(("gcmdata", f, (bits, fam, d, [ln], 20, 8, False)))
                # streaming: pieces leaving partial blocks between calls
                streams = [[0, 5], [5, 0, 11], [1, 16], [15, 1, 16], [16, 16], [17, 15], [3, 13, 17], [20, 128], [7, 129, 3], [130, 130]] if q else \
                    [[a, b] for a in range(0, 34) for b in (0, 1, 15, 16, 17)] + [[7, 129, 3], [130, 130], [255, 2, 16], [20, 272, 5]]
                if fam == "vaes_avx512":
                    streams = streams + [[400, 17], [390, 17], [5, 440, 9], [5, 270, 9], [268, 4], [700, 3]]
                for p_ in streams:
                    L.append(("gcmstream", f, (bits, fam, d, p_, 13, 16, False)))
    return L
