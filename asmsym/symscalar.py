"""Path-forking symbolic executor for the scalar x86-64 subset used by the dispatch / status code
(push/pop/mov/lea/test/and/or/xor/cmp/add/sub/jcc/jmp/cmovcc/cpuid/xgetbv/ret/call-of-nothing).
Values are z3 bit-vectors; cpuid/xgetbv results are named symbols shared by all executions;
an unknown instruction raises Unsupported (the caller reports INCONCLUSIVE, never success)."""
import re
import z3
from elfobj import reloc_target

R64 = ["rax", "rcx", "rdx", "rbx", "rsp", "rbp", "rsi", "rdi"] + ["r%d" % i for i in range(8, 16)]
REG = {}
for i, n in enumerate(R64):
    REG[n] = (n, 64)
for i, n in enumerate(["eax", "ecx", "edx", "ebx", "esp", "ebp", "esi", "edi"] + ["r%dd" % i for i in range(8, 16)]):
    REG[n] = (R64[i], 32)
for i, n in enumerate(["ax", "cx", "dx", "bx", "sp", "bp", "si", "di"] + ["r%dw" % i for i in range(8, 16)]):
    REG[n] = (R64[i], 16)
for i, n in enumerate(["al", "cl", "dl", "bl", "spl", "bpl", "sil", "dil"] + ["r%db" % i for i in range(8, 16)]):
    REG[n] = (R64[i], 8)
CALLEE_SAVED = ["rbx", "rbp", "r12", "r13", "r14", "r15"]


class Unsupported(Exception):
    pass


class Violation(Exception):
    pass


def cpuid_syms(leaf, sub):
    return [z3.BitVec("cpuid_%x_%x_%s" % (leaf, sub, r), 32) for r in ("eax", "ebx", "ecx", "edx")]


XCR0 = [z3.BitVec("xcr0_eax", 32), z3.BitVec("xcr0_edx", 32)]
OSXSAVE = z3.Extract(27, 27, cpuid_syms(1, 0)[2]) == 1


class Path:
    def __init__(self, regs, flags, stack, pc, cond, stale):
        self.regs, self.flags, self.stack, self.pc, self.cond, self.stale = regs, flags, stack, pc, cond, stale
        self.stores = []       # (symbol, offset, bits, value)
        self.sp = 0            # rsp - rsp0 in bytes (concrete)
        self.events = []
        self.steps = 0

    def clone(self):
        p = Path(dict(self.regs), dict(self.flags), dict(self.stack), self.pc, self.cond, self.stale)
        p.stores = list(self.stores)
        p.sp = self.sp
        p.events = list(self.events)
        p.steps = self.steps
        return p


class Exec:
    def __init__(self, insns, labels, symaddr, solver_timeout_ms=20000):
        self.insns, self.labels, self.symaddr = insns, labels, symaddr   # symaddr: name -> synthetic concrete address
        self.nstale = 0
        self.queries = 0
        self.solver_s = 0.0
        self.timeout = solver_timeout_ms

    def fresh(self, what, bits=64):
        self.nstale += 1
        return z3.BitVec("stale_%s_%d" % (what, self.nstale), bits)

    def feasible(self, cond):
        import time
        s = z3.Solver()
        s.set("timeout", self.timeout)
        s.add(cond)
        t = time.time()
        r = s.check()
        self.solver_s += time.time() - t
        self.queries += 1
        if r == z3.unknown:
            raise Unsupported("solver returned unknown on a path condition")
        return r == z3.sat

    # ---- operands
    def rd(self, p, i, op, bits_hint=None):
        op = op.strip()
        if op in REG:
            r, b = REG[op]
            v = p.regs[r]
            return (v if b == 64 else z3.Extract(b - 1, 0, v)), b
        if re.match(r"^-?(0x[0-9a-f]+|\d+)$", op):
            b = bits_hint or 64
            return z3.BitVecVal(int(op, 0), b), b
        m = re.match(r"^(BYTE|WORD|DWORD|QWORD) PTR \[(.+)\]$", op)
        if m:
            b = {"BYTE": 8, "WORD": 16, "DWORD": 32, "QWORD": 64}[m.group(1)]
            tgt = self.mem_target(p, i, m.group(2))
            raise Unsupported("memory read %r in %r" % (tgt, i))
        raise Unsupported("operand %r in %r" % (op, i))

    def mem_target(self, p, i, expr):
        if expr.startswith("rip+") or expr.startswith("rip-"):
            rel = [r for r in i.relocs if r[1] in ("R_X86_64_PC32", "R_X86_64_PLT32")]
            if rel:
                return reloc_target(i, rel[0])
            return ("@text", i.addr + i.size + int(expr[3:], 0))
        raise Unsupported("address expression %r in %r" % (expr, i))

    def wr(self, p, op, val, bits):
        r, b = REG[op.strip()]
        if b == 64:
            p.regs[r] = val
        elif b == 32:
            p.regs[r] = z3.ZeroExt(32, val)
        else:
            p.regs[r] = z3.Concat(z3.Extract(63, b, p.regs[r]), val)

    def set_logic_flags(self, p, res):
        b = res.size()
        p.flags = {"zf": res == 0, "sf": z3.Extract(b - 1, b - 1, res) == 1, "cf": z3.BoolVal(False), "of": z3.BoolVal(False)}

    def set_sub_flags(self, p, a, b_):
        n = a.size()
        res = a - b_
        p.flags = {"zf": res == 0, "sf": z3.Extract(n - 1, n - 1, res) == 1, "cf": z3.ULT(a, b_),
                   "of": z3.Extract(n - 1, n - 1, (a ^ b_) & (a ^ res)) == 1}

    def cc(self, p, c):
        f = p.flags
        t = {"e": f["zf"], "z": f["zf"], "ne": z3.Not(f["zf"]), "nz": z3.Not(f["zf"]), "b": f["cf"], "c": f["cf"], "ae": z3.Not(f["cf"]), "nb": z3.Not(f["cf"]),
             "nc": z3.Not(f["cf"]), "a": z3.And(z3.Not(f["cf"]), z3.Not(f["zf"])), "be": z3.Or(f["cf"], f["zf"]), "s": f["sf"], "ns": z3.Not(f["sf"]),
             "l": f["sf"] != f["of"], "ge": f["sf"] == f["of"], "g": z3.And(z3.Not(f["zf"]), f["sf"] == f["of"]), "le": z3.Or(f["zf"], f["sf"] != f["of"])}
        if c not in t:
            raise Unsupported("condition code " + c)
        return t[c]

    def target(self, i):
        m = re.match(r"^([0-9a-f]+)$", i.text.strip())
        if m:
            return int(m.group(1), 16)
        return None

    # ---- main loop
    def run(self, entry, max_steps=400, entry_regs=None):
        """Execute from address `entry` until ret; returns the finished paths."""
        regs = {r: self.fresh("entry_" + r) for r in R64}
        if entry_regs:
            regs.update(entry_regs)
        self.entry_regs = dict(regs)
        flags = {k: z3.Bool("stale_flag_%s" % k) for k in ("zf", "sf", "cf", "of")}
        start = Path(regs, flags, {}, entry, z3.BoolVal(True), set())
        work, done = [start], []
        while work:
            p = work.pop()
            while True:
                p.steps += 1
                if p.steps > max_steps:
                    raise Unsupported("step bound exceeded (loop?) at %x" % p.pc)
                i = self.insns.get(p.pc)
                if i is None:
                    raise Unsupported("execution reaches undecoded address %x" % p.pc)
                nxt = p.pc + i.size
                mn, ops = i.mnem, i.ops
                if mn in ("nop", "endbr64", "pause"):
                    pass
                elif mn == "push":
                    v, b = self.rd(p, i, ops[0])
                    p.sp -= 8
                    p.stack[p.sp] = v if b == 64 else z3.ZeroExt(64 - b, v)
                elif mn == "pop":
                    if p.sp not in p.stack:
                        raise Violation("pop reads a stack slot above the function's own frame (rsp0%+d) at %x" % (p.sp, i.addr))
                    self.wr(p, ops[0], p.stack.pop(p.sp), 64)
                    p.sp += 8
                elif mn == "mov":
                    if "PTR" in ops[0]:
                        m = re.match(r"^(BYTE|WORD|DWORD|QWORD) PTR \[(.+)\]$", ops[0])
                        b = {"BYTE": 8, "WORD": 16, "DWORD": 32, "QWORD": 64}[m.group(1)]
                        v, _ = self.rd(p, i, ops[1], b)
                        sym, off = self.mem_target(p, i, m.group(2))
                        p.stores.append((sym, off, b, v))
                    else:
                        b = REG[ops[0]][1]
                        v, _ = self.rd(p, i, ops[1], b)
                        self.wr(p, ops[0], v, b)
                elif mn == "lea":
                    m = re.match(r"^\[(.+)\]$", ops[1])
                    sym, off = self.mem_target(p, i, m.group(1))
                    if sym == "@text":
                        addr = None
                        for n, a in self.labels.items():
                            if a == off:
                                addr = self.symaddr.get(n)
                                if addr is not None:
                                    break
                        if addr is None:
                            raise Unsupported("lea of an unnamed code address in %r" % i)
                    else:
                        if sym not in self.symaddr:
                            raise Unsupported("lea of unknown symbol %s" % sym)
                        addr = self.symaddr[sym] + off
                    self.wr(p, ops[0], z3.BitVecVal(addr, 64), 64)
                elif mn in ("test", "and", "or", "xor"):
                    b = REG[ops[0]][1] if ops[0] in REG else None
                    a, ba = self.rd(p, i, ops[0])
                    c, _ = self.rd(p, i, ops[1], ba)
                    if mn == "xor" and ops[0] == ops[1]:
                        res = z3.BitVecVal(0, ba)
                    else:
                        res = {"test": a & c, "and": a & c, "or": a | c, "xor": a ^ c}[mn]
                    res = z3.simplify(res)
                    self.set_logic_flags(p, res)
                    if mn != "test":
                        self.wr(p, ops[0], res, ba)
                elif mn in ("cmp", "sub", "add"):
                    a, ba = self.rd(p, i, ops[0])
                    c, _ = self.rd(p, i, ops[1], ba)
                    if mn == "add":
                        res = a + c
                        n = ba
                        p.flags = {"zf": res == 0, "sf": z3.Extract(n - 1, n - 1, res) == 1, "cf": z3.ULT(res, a),
                                   "of": z3.Extract(n - 1, n - 1, (a ^ res) & (c ^ res)) == 1}
                        self.wr(p, ops[0], res, ba)
                    else:
                        self.set_sub_flags(p, a, c)
                        if mn == "sub":
                            self.wr(p, ops[0], a - c, ba)
                elif mn.startswith("cmov"):
                    cond = self.cc(p, mn[4:])
                    b = REG[ops[0]][1]
                    a, _ = self.rd(p, i, ops[0])
                    c, _ = self.rd(p, i, ops[1], b)
                    self.wr(p, ops[0], z3.simplify(z3.If(cond, c, a)), b)
                elif mn == "cpuid":
                    leaf = z3.simplify(z3.Extract(31, 0, p.regs["rax"]))
                    if not z3.is_bv_value(leaf):
                        raise Violation("cpuid executed with a non-constant leaf in eax at %x" % i.addr)
                    leaf = leaf.as_long()
                    sub = 0
                    if leaf in (4, 7, 0xb, 0xd, 0xf, 0x10, 0x12, 0x14, 0x17, 0x18):
                        s_ = z3.simplify(z3.Extract(31, 0, p.regs["rcx"]))
                        if not z3.is_bv_value(s_):
                            raise Violation("cpuid leaf %d executed with an undefined sub-leaf in ecx at %x (missing xor ecx,ecx)" % (leaf, i.addr))
                        sub = s_.as_long()
                    p.events.append(("cpuid", leaf, sub))
                    for r, v in zip(("rax", "rbx", "rcx", "rdx"), cpuid_syms(leaf, sub)):
                        p.regs[r] = z3.ZeroExt(32, v)
                elif mn == "xgetbv":
                    s_ = z3.simplify(z3.Extract(31, 0, p.regs["rcx"]))
                    if not (z3.is_bv_value(s_) and s_.as_long() == 0):
                        raise Violation("xgetbv executed with ecx != 0 / undefined at %x" % i.addr)
                    if self.feasible(z3.And(p.cond, z3.Not(OSXSAVE))):
                        raise Violation("xgetbv reachable without CPUID.1:ECX.OSXSAVE (would raise #UD) at %x" % i.addr)
                    p.events.append(("xgetbv", 0))
                    p.regs["rax"] = z3.ZeroExt(32, XCR0[0])
                    p.regs["rdx"] = z3.ZeroExt(32, XCR0[1])
                elif mn == "ret":
                    done.append(p)
                    break
                elif mn == "jmp":
                    t = self.target(i)
                    if t is None:
                        raise Unsupported("indirect jmp in %r" % i)
                    nxt = t
                elif mn.startswith("j") and len(mn) <= 4:
                    cond = z3.simplify(self.cc(p, mn[1:]))
                    t = self.target(i)
                    if z3.is_true(cond):
                        nxt = t
                    elif z3.is_false(cond):
                        pass
                    else:
                        taken, fall = z3.And(p.cond, cond), z3.And(p.cond, z3.Not(cond))
                        ft, ff = self.feasible(taken), self.feasible(fall)
                        if ft and ff:
                            q = p.clone()
                            q.cond, q.pc = taken, t
                            work.append(q)
                            p.cond = fall
                        elif ft:
                            p.cond, nxt = taken, t
                        elif ff:
                            p.cond = fall
                        else:
                            break
                else:
                    raise Unsupported("instruction %r" % i)
                p.pc = nxt
        return done
