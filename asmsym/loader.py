"""Lay freshly assembled objects out in a synthetic flat address space and apply relocations, so that the
symbolic machine sees the constants (SHUF_MASK, POLY, K256, ...) and call targets the assembler emitted."""
import re
from elfobj import Obj, disassemble, Insn
from vecsym import Region


class Image:
    def __init__(self):
        self.insns = {}        # absolute addr -> Insn (with abs_target)
        self.symbols = {}      # name -> absolute addr
        self.regions = []      # read-only data regions (constants)
        self.objs = []
        self.next_text = 0x10000000
        self.next_data = 0x20000000

    def load(self, path):
        o = Obj(path)
        secbase = {}
        for s in o.sections:
            if not (s.flags & 2) or s.size == 0:
                continue
            if s.flags & 4:
                base = self.next_text
                self.next_text += (s.size + 0xfff) & ~0xfff
                self.next_text += 0x1000
            else:
                base = (self.next_data + max(s.align, 1) - 1) & ~(max(s.align, 1) - 1)
                self.next_data = base + s.size + 0x1000
            secbase[s.idx] = base
            s.base = base
        for y in o.symbols:
            if y.shndx and y.shndx in secbase and y.name:
                if y.bind in (1, 2) or y.name not in self.symbols:
                    self.symbols[y.name] = secbase[y.shndx] + y.value
        self.objs.append((o, secbase))
        return o, secbase

    def finish(self, mem=None):
        """second pass: disassemble text sections, resolve relocations against the global symbol table, make data regions"""
        for o, secbase in self.objs:
            for s in o.sections:
                if s.idx not in secbase:
                    continue
                if s.flags & 4:
                    insns, labels = disassemble(o.path, s.name)
                    base = secbase[s.idx]
                    for a, i in insns.items():
                        i.addr = a + base
                        i.abs_target = None
                        if re.match(r"^(j\w+|call)$", i.mnem) and re.match(r"^[0-9a-f]+$", i.text.strip()) and not i.relocs:
                            i.abs_target = int(i.text.strip(), 16) + base
                        for (roff, rtype, rexpr) in i.relocs:
                            m = re.match(r"^(.+?)([+-]0x[0-9a-f]+)?$", rexpr)
                            sym, add = m.group(1), int(m.group(2), 16) if m.group(2) else 0
                            if rtype in ("R_X86_64_PC32", "R_X86_64_PLT32"):
                                add += (a + i.size) - roff
                            if sym.startswith("."):
                                sec = o.secbyname.get(sym)
                                tgt = secbase.get(sec.idx) if sec else None
                            else:
                                ys = o.sym(sym)
                                if ys is not None and ys.shndx in secbase:
                                    tgt = secbase[ys.shndx] + ys.value
                                else:
                                    tgt = self.symbols.get(sym)
                            if tgt is None:
                                i.abs_target = None
                                i.unresolved = sym
                            else:
                                i.abs_target = tgt + add
                        if i.abs_target is None and not i.relocs and "rip" in i.text:
                            mm = re.search(r"\[rip([+-]0x[0-9a-f]+)\]", i.text)
                            if mm:      # rip-relative reference inside the same section (tables kept in .text)
                                i.abs_target = i.addr + i.size + int(mm.group(1), 16)
                        self.insns[i.addr] = i
                    r = Region("%s:%s" % (o.path.split("/")[-1], s.name), base, s.size, readable=True, writable=False, kind="const")
                    for k, b in enumerate(s.data):
                        r.bytes[k] = b
                    self.regions.append(r)
                else:
                    r = Region("%s:%s" % (o.path.split("/")[-1], s.name), secbase[s.idx], s.size, readable=True, writable=False, kind="const")
                    for k, b in enumerate(s.data):
                        r.bytes[k] = b
                    # relocated pointers inside data (dispatch slots etc.) are left as raw bytes
                    self.regions.append(r)
        return self
