"""AES-NI / PCLMULQDQ primitives for the symbolic machine and for the specification side.
Concrete inputs are computed exactly (FIPS-197 tables generated here); symbolic inputs go through
uninterpreted functions shared by implementation and specification:
  A(s)  = MixColumns(SubBytes(ShiftRows(s)))          aesenc(s,k)     = A(s)  ^ k
  AL(s) = SubBytes(ShiftRows(s))                      aesenclast(s,k) = AL(s) ^ k
  D(s)  = InvMixColumns(InvSubBytes(InvShiftRows(s))) aesdec(s,k)     = D(s)  ^ k
  DL(s) = InvSubBytes(InvShiftRows(s))                aesdeclast(s,k) = DL(s) ^ k
  IMC(s), SB(byte) for the key schedule, CLMUL(a64,b64) for carry-less multiplication of symbolic operands.
A result proved with these symbols holds for every interpretation, in particular the real one."""
import z3
from bvutil import *

# ---- FIPS-197 tables
def _xt(a):
    a <<= 1
    return (a ^ 0x11b) & 0xff if a & 0x100 else a


def _gmul(a, b):
    r = 0
    while b:
        if b & 1:
            r ^= a
        a = _xt(a)
        b >>= 1
    return r


def _mk_sbox():
    inv = [0] * 256
    for a in range(1, 256):
        for b in range(1, 256):
            if _gmul(a, b) == 1:
                inv[a] = b
                break
    sb = []
    for a in range(256):
        x = inv[a]
        y = x
        for _ in range(4):
            x = ((x << 1) | (x >> 7)) & 0xff
            y ^= x
        sb.append(y ^ 0x63)
    return sb


SBOX = _mk_sbox()
ISBOX = [0] * 256
for _i, _v in enumerate(SBOX):
    ISBOX[_v] = _i

F128 = z3.BitVecSort(128)
F8 = z3.BitVecSort(8)
F64 = z3.BitVecSort(64)
UF = {n: z3.Function("AES_" + n, F128, F128) for n in ("A", "AL", "D", "DL", "IMC")}
UF_SB = z3.Function("AES_SB", F8, F8)
UF_CLMUL = z3.Function("CLMUL", F64, F64, F128)


def _bytes(x):
    return [(x >> (8 * i)) & 0xff for i in range(16)]


def _frombytes(b):
    r = 0
    for i, v in enumerate(b):
        r |= v << (8 * i)
    return r


def _shiftrows(b):
    return [b[(i + 4 * (i % 4)) % 16] for i in range(16)]


def _invshiftrows(b):
    return [b[(i - 4 * (i % 4)) % 16] for i in range(16)]


def _mixcol(b, inv=False):
    out = [0] * 16
    m = (14, 11, 13, 9) if inv else (2, 3, 1, 1)
    for c in range(4):
        col = b[4 * c:4 * c + 4]
        for r in range(4):
            out[4 * c + r] = _gmul(col[r], m[0]) ^ _gmul(col[(r + 1) % 4], m[1]) ^ _gmul(col[(r + 2) % 4], m[2]) ^ _gmul(col[(r + 3) % 4], m[3])
    return out


def conc(kind, x):
    b = _bytes(x)
    if kind == "A":
        return _frombytes(_mixcol([SBOX[v] for v in _shiftrows(b)]))
    if kind == "AL":
        return _frombytes([SBOX[v] for v in _shiftrows(b)])
    if kind == "D":
        return _frombytes(_mixcol([ISBOX[v] for v in _invshiftrows(b)], True))
    if kind == "DL":
        return _frombytes([ISBOX[v] for v in _invshiftrows(b)])
    if kind == "IMC":
        return _frombytes(_mixcol(b, True))
    raise KeyError(kind)


def aes_fn(kind, s):
    if is_c(s):
        return conc(kind, s)
    return UF[kind](s)


def aes_round(kind, s, k):
    """kind in enc, enclast, dec, declast"""
    f = {"enc": "A", "enclast": "AL", "dec": "D", "declast": "DL"}[kind]
    return bxor(aes_fn(f, s), k, 128)


def sb_byte(b):
    if is_c(b):
        return SBOX[b & 0xff]
    return UF_SB(b)


def subword(w):
    return cat([(sb_byte(ext(w, 8 * k + 7, 8 * k)), 8) for k in (3, 2, 1, 0)])


def keygenassist(x, rcon):
    x1, x3 = ext(x, 63, 32), ext(x, 127, 96)
    s1, s3 = subword(x1), subword(x3)
    r1 = bxor(bror(s1, 8, 32), rcon, 32)
    r3 = bxor(bror(s3, 8, 32), rcon, 32)
    return cat([(r3, 32), (s3, 32), (r1, 32), (s1, 32)])


def clmul64(a, b):
    """carry-less 64x64 -> 128; exact when at least one operand is concrete"""
    if is_c(a) and is_c(b):
        r = 0
        for i in range(64):
            if (b >> i) & 1:
                r ^= a << i
        return r
    if is_c(a) and not is_c(b):
        a, b = b, a
    if is_c(b):
        r = 0
        for i in range(64):
            if (b >> i) & 1:
                r = bxor(r, bshl(zext(a, 64, 128), i, 128), 128)
        return r
    return UF_CLMUL(a, b)


# ---- FIPS-197 reference (specification side), over the same primitives
RCON = [0x01, 0x02, 0x04, 0x08, 0x10, 0x20, 0x40, 0x80, 0x1b, 0x36]


def key_expansion(key, nk):
    """key: value of nk*32 bits (byte 0 = least significant). Returns list of round keys (128-bit values), FIPS-197 5.2."""
    nr = nk + 6
    w = [ext(key, 32 * i + 31, 32 * i) for i in range(nk)]
    for i in range(nk, 4 * (nr + 1)):
        t = w[i - 1]
        if i % nk == 0:
            t = bxor(subword(bror(t, 8, 32)), RCON[i // nk - 1], 32)
        elif nk > 6 and i % nk == 4:
            t = subword(t)
        w.append(bxor(w[i - nk], t, 32))
    return [cat([(w[4 * r + 3], 32), (w[4 * r + 2], 32), (w[4 * r + 1], 32), (w[4 * r], 32)]) for r in range(nr + 1)]


def dec_schedule(rks):
    """equivalent-inverse-cipher schedule: reversed, InvMixColumns on the inner rounds (FIPS-197 5.3.5)"""
    n = len(rks)
    out = [rks[n - 1]]
    for r in range(n - 2, 0, -1):
        out.append(aes_fn("IMC", rks[r]))
    out.append(rks[0])
    return out


def encrypt_block(rks, x):
    s = bxor(x, rks[0], 128)
    for r in range(1, len(rks) - 1):
        s = aes_round("enc", s, rks[r])
    return aes_round("enclast", s, rks[-1])


def decrypt_block_eqinv(drks, x):
    """equivalent inverse cipher with a decryption schedule drks (as produced by dec_schedule)"""
    s = bxor(x, drks[0], 128)
    for r in range(1, len(drks) - 1):
        s = aes_round("dec", s, drks[r])
    return aes_round("declast", s, drks[-1])
