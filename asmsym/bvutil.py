"""Bit-vector values for the symbolic machine: a value is a Python int (concrete) or a z3 BitVecRef;
every helper folds constants so that an all-concrete run is an emulator."""
import z3

M64 = (1 << 64) - 1


def is_c(v):
    return isinstance(v, int)


def mask(w):
    return (1 << w) - 1


def tz(v, w):
    """z3 term of width w for value v"""
    if is_c(v):
        return z3.BitVecVal(v & mask(w), w)
    return v


def width(v, default=None):
    return default if is_c(v) else v.size()


def simp(v):
    if is_c(v):
        return v
    s = z3.simplify(v)
    if z3.is_bv_value(s):
        return s.as_long()
    return s


def ext(v, hi, lo, w=None):
    """bits hi..lo; structural fast paths for Concat / Extract / ZeroExt avoid calling the simplifier"""
    if is_c(v):
        return (v >> lo) & mask(hi - lo + 1)
    while True:
        n = v.size()
        if lo == 0 and hi == n - 1:
            return v
        k = v.decl().kind()
        if k == z3.Z3_OP_CONCAT:
            off = n
            hit = None
            for c in v.children():
                cs = c.size()
                off -= cs
                if lo >= off and hi < off + cs:
                    hit = (c, off)
                    break
            if hit is None:
                # the slice spans several children: take the pieces structurally and re-join them
                parts = []
                off = n
                for c in v.children():
                    cs = c.size()
                    off -= cs
                    a_, b_ = max(lo, off), min(hi, off + cs - 1)
                    if a_ <= b_:
                        cv = c.as_long() if z3.is_bv_value(c) else c
                        parts.append((ext(cv, b_ - off, a_ - off), b_ - a_ + 1))
                return cat(parts)
            v, hi, lo = hit[0], hi - hit[1], lo - hit[1]
            if z3.is_bv_value(v):
                return (v.as_long() >> lo) & mask(hi - lo + 1)
            continue
        if k == z3.Z3_OP_EXTRACT:
            _, l0 = v.params()
            v, hi, lo = v.arg(0), hi + l0, lo + l0
            continue
        if k == z3.Z3_OP_ZERO_EXT:
            inner = v.arg(0)
            if hi < inner.size():
                v = inner
                continue
            if lo >= inner.size():
                return 0
        break
    if z3.is_bv_value(v):
        return (v.as_long() >> lo) & mask(hi - lo + 1)
    return simp(z3.Extract(hi, lo, v))


def cat(parts):
    """parts: list of (value, width) from most significant to least significant (no simplifier call: nested concats are
    flattened, adjacent constants merged, adjacent extracts of the same term re-joined)"""
    if all(is_c(p) for p, _ in parts):
        r = 0
        for p, w in parts:
            r = (r << w) | (p & mask(w))
        return r
    flat = []
    for p, w in parts:
        if not is_c(p) and p.decl().kind() == z3.Z3_OP_CONCAT:
            for c in p.children():
                flat.append((c.as_long() if z3.is_bv_value(c) else c, c.size()))
        elif not is_c(p) and z3.is_bv_value(p):
            flat.append((p.as_long(), w))
        else:
            flat.append((p, w))
    merged = []
    for p, w in flat:
        if merged:
            q, qw = merged[-1]
            if is_c(p) and is_c(q):
                merged[-1] = (((q & mask(qw)) << w) | (p & mask(w)), qw + w)
                continue
            if (not is_c(p)) and (not is_c(q)) and p.decl().kind() == z3.Z3_OP_EXTRACT and q.decl().kind() == z3.Z3_OP_EXTRACT and \
                    p.arg(0).eq(q.arg(0)) and q.params()[1] == p.params()[0] + 1:
                inner = p.arg(0)
                hi_, lo_ = q.params()[0], p.params()[1]
                merged[-1] = (inner if (lo_ == 0 and hi_ == inner.size() - 1) else z3.Extract(hi_, lo_, inner), qw + w)
                continue
        merged.append((p, w))
    if len(merged) == 1:
        return merged[0][0]
    return z3.Concat(*[tz(p, w) for p, w in merged])


def zext(v, wfrom, wto):
    if wfrom == wto:
        return v
    if is_c(v):
        return v & mask(wfrom)
    return z3.ZeroExt(wto - wfrom, v)


def sext(v, wfrom, wto):
    if is_c(v):
        v &= mask(wfrom)
        if v >> (wfrom - 1):
            v |= mask(wto) ^ mask(wfrom)
        return v
    return z3.SignExt(wto - wfrom, v)


def bxor(a, b, w):
    if is_c(a) and is_c(b):
        return (a ^ b) & mask(w)
    if is_c(a) and a == 0:
        return b
    if is_c(b) and b == 0:
        return a
    if (not is_c(a)) and (not is_c(b)) and a.eq(b):
        return 0
    return tz(a, w) ^ tz(b, w)


def band(a, b, w):
    if is_c(a) and is_c(b):
        return a & b & mask(w)
    if (is_c(a) and a == 0) or (is_c(b) and b == 0):
        return 0
    if is_c(a) and a == mask(w):
        return b
    if is_c(b) and b == mask(w):
        return a
    return tz(a, w) & tz(b, w)


def bor(a, b, w):
    if is_c(a) and is_c(b):
        return (a | b) & mask(w)
    if is_c(a) and a == 0:
        return b
    if is_c(b) and b == 0:
        return a
    return tz(a, w) | tz(b, w)


def bnot(a, w):
    if is_c(a):
        return ~a & mask(w)
    return ~a


def badd(a, b, w):
    if is_c(a) and is_c(b):
        return (a + b) & mask(w)
    if is_c(b) and b == 0:
        return a
    if is_c(a) and a == 0:
        return b
    return tz(a, w) + tz(b, w)


def bsub(a, b, w):
    if is_c(a) and is_c(b):
        return (a - b) & mask(w)
    if is_c(b) and b == 0:
        return a
    return tz(a, w) - tz(b, w)


def bmul(a, b, w):
    if is_c(a) and is_c(b):
        return (a * b) & mask(w)
    return tz(a, w) * tz(b, w)


def bshl(a, n, w):
    """shift by concrete n"""
    if n >= w:
        return 0
    if n == 0:
        return a
    if is_c(a):
        return (a << n) & mask(w)
    return simp(z3.Concat(z3.Extract(w - 1 - n, 0, a), z3.BitVecVal(0, n)))


def bshr(a, n, w):
    if n >= w:
        return 0
    if n == 0:
        return a
    if is_c(a):
        return (a & mask(w)) >> n
    return simp(z3.Concat(z3.BitVecVal(0, n), z3.Extract(w - 1, n, a)))


def bsar(a, n, w):
    if n >= w:
        n = w - 1
    if n == 0:
        return a
    if is_c(a):
        a &= mask(w)
        s = a >> (w - 1)
        r = a >> n
        if s:
            r |= mask(w) ^ mask(w - n)
        return r
    return simp(z3.SignExt(n, z3.Extract(w - 1, n, a)))


def brol(a, n, w):
    n %= w
    if n == 0:
        return a
    if is_c(a):
        a &= mask(w)
        return ((a << n) | (a >> (w - n))) & mask(w)
    return simp(z3.RotateLeft(a, n))


def bror(a, n, w):
    return brol(a, (w - n) % w, w)


def beq(a, b, w):
    """-> Python bool or z3 Bool"""
    if is_c(a) and is_c(b):
        return (a & mask(w)) == (b & mask(w))
    r = z3.simplify(tz(a, w) == tz(b, w))
    if z3.is_true(r):
        return True
    if z3.is_false(r):
        return False
    return r


def bult(a, b, w):
    if is_c(a) and is_c(b):
        return (a & mask(w)) < (b & mask(w))
    r = z3.simplify(z3.ULT(tz(a, w), tz(b, w)))
    if z3.is_true(r):
        return True
    if z3.is_false(r):
        return False
    return r


def bite(c, a, b, w):
    if c is True:
        return a
    if c is False:
        return b
    return simp(z3.If(c, tz(a, w), tz(b, w)))


def lanes(v, total, lw):
    """split into lanes of lw bits, least significant first"""
    return [ext(v, k * lw + lw - 1, k * lw) for k in range(total // lw)]


def join(ls, lw):
    return cat([(x, lw) for x in reversed(ls)])


def bnot_bool(c):
    if isinstance(c, bool):
        return not c
    return z3.Not(c)


def band_bool(a, b):
    if a is False or b is False:
        return False
    if a is True:
        return b
    if b is True:
        return a
    return z3.And(a, b)


def bor_bool(a, b):
    if a is True or b is True:
        return True
    if a is False:
        return b
    if b is False:
        return a
    return z3.Or(a, b)


def free_vars(v, acc=None, seen=None):
    acc = set() if acc is None else acc
    if is_c(v) or isinstance(v, bool):
        return acc
    seen = set() if seen is None else seen
    stack = [v]
    while stack:
        t = stack.pop()
        i = t.get_id()
        if i in seen:
            continue
        seen.add(i)
        if z3.is_const(t) and t.decl().kind() == z3.Z3_OP_UNINTERPRETED:
            acc.add(t.decl().name())
        else:
            stack.extend(t.children())
    return acc
