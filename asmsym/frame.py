"""Frame mode (C19): every CFG path of an entry point is executed over an abstraction that tracks only the
stack pointer, the callee-saved registers, values derived from them and the stack slots addressed through
them; everything else is havoc and both directions of every conditional branch are taken.  Calls to other
library code are executed inline (internal helpers have private conventions), indirect transfers are treated
as ABI-conforming external calls.  At every return a verification condition (rsp, rbx, rbp, r12-r15 equal
their entry values, no store at/above the return address) is built as a z3 formula and decided."""
import re
import z3

GPR64 = ["rax", "rcx", "rdx", "rbx", "rsp", "rbp", "rsi", "rdi"] + ["r%d" % i for i in range(8, 16)]
REGMAP = {}
for i, n in enumerate(GPR64):
    REGMAP[n] = (n, 64)
for i, n in enumerate(["eax", "ecx", "edx", "ebx", "esp", "ebp", "esi", "edi"] + ["r%dd" % i for i in range(8, 16)]):
    REGMAP[n] = (GPR64[i], 32)
for i, n in enumerate(["ax", "cx", "dx", "bx", "sp", "bp", "si", "di"] + ["r%dw" % i for i in range(8, 16)]):
    REGMAP[n] = (GPR64[i], 16)
for i, n in enumerate(["al", "cl", "dl", "bl", "spl", "bpl", "sil", "dil"] + ["r%db" % i for i in range(8, 16)]):
    REGMAP[n] = (GPR64[i], 8)
for i, n in enumerate(["ah", "ch", "dh", "bh"]):
    REGMAP[n] = (GPR64[i], 8)
CALLEE = ("rbx", "rbp", "r12", "r13", "r14", "r15")
CALLER = ("rax", "rcx", "rdx", "rsi", "rdi", "r8", "r9", "r10", "r11")
NOWRITE = {"cmp", "test", "bt", "ptest", "vptest", "ucomiss", "ucomisd", "comiss", "comisd", "vucomiss", "vucomisd", "clflush", "nop", "lea", "push", "jmp", "call",
           "prefetcht0", "prefetcht1", "prefetcht2", "prefetchnta", "prefetchw", "vtestps", "vtestpd", "kortestw", "kortestq", "kortestd", "kortestb", "ktestw", "ktestq", "ktestd", "ktestb"}
SIZE_KW = {"BYTE": 1, "WORD": 2, "DWORD": 4, "QWORD": 8, "TBYTE": 10, "OWORD": 16, "XMMWORD": 16, "YMMWORD": 32, "ZMMWORD": 64, "FWORD": 6}
FORBIDDEN = {"std": "sets the direction flag", "ldmxcsr": "writes MXCSR", "vldmxcsr": "writes MXCSR", "fldcw": "writes the x87 control word", "fninit": "resets the x87 state",
             "finit": "resets the x87 state", "popf": "writes RFLAGS (DF)", "popfq": "writes RFLAGS (DF)", "fxrstor": "restores MXCSR/x87 state", "xrstor": "restores extended state",
             "frstor": "restores x87 state", "fldenv": "loads x87 environment", "emms": None}


NORETURN = {"__stack_chk_fail", "abort", "__assert_fail", "exit", "_exit"}


class SP:
    """stack-pointer-derived value: base id + concrete offset"""
    __slots__ = ("base", "off")

    def __init__(self, base, off):
        self.base, self.off = base, off

    def key(self):
        return ("sp", self.base, self.off)


class ENT:
    __slots__ = ("reg",)

    def __init__(self, reg):
        self.reg = reg

    def key(self):
        return ("ent", self.reg)


class UNK:
    def key(self):
        return ("unk",)


class RET:
    __slots__ = ("site",)

    def __init__(self, site):
        self.site = site

    def key(self):
        return ("ret", self.site)


U = UNK()


class State:
    def __init__(self):
        self.regs = {}
        self.slots = {}     # (base, off) -> (size, value)
        self.bases = {}     # base id -> (parent base, parent off at creation)  [for aligned bases]
        self.pc = None      # (obj, sec, addr)
        self.callstack = ()
        self.highstore = None

    def clone(self):
        s = State()
        s.regs = dict(self.regs)
        s.slots = dict(self.slots)
        s.bases = dict(self.bases)
        s.pc = self.pc
        s.callstack = self.callstack
        s.highstore = self.highstore
        return s

    def key(self):
        return (self.pc[0].name, self.pc[1], self.pc[2], tuple(self.regs[r].key() for r in GPR64), tuple(sorted((k, v[0], v[1].key()) for k, v in self.slots.items())),
                self.callstack, self.highstore is not None)


_mem = re.compile(r"(?:(BYTE|WORD|DWORD|QWORD|TBYTE|OWORD|XMMWORD|YMMWORD|ZMMWORD|FWORD) PTR )?(?:[a-z]s:)?\[([^\]]+)\]")


def split_ops(s):
    out, depth, cur = [], 0, ""
    for ch in s:
        if ch in "[{(":
            depth += 1
        elif ch in "]})":
            depth -= 1
        if ch == "," and depth == 0:
            out.append(cur.strip())
            cur = ""
        else:
            cur += ch
    if cur.strip():
        out.append(cur.strip())
    return out


def parse_addr(expr):
    """'rsp+rax*8+0x20' -> (base reg or None, index reg or None, scale, disp)"""
    base = idx = None
    scale, disp = 1, 0
    for m in re.finditer(r"([+-]?)\s*([a-z0-9]+\*[1248]|[a-z][a-z0-9]*|0x[0-9a-f]+|\d+)", expr):
        sign, tok = m.group(1), m.group(2)
        if "*" in tok:
            r, sc = tok.split("*")
            idx, scale = r, int(sc)
        elif tok in REGMAP or tok == "rip" or re.match(r"^[xyz]mm\d+$", tok):
            if tok == "rip":
                base = "rip"
            elif tok not in REGMAP:
                idx = tok          # vector index (gather)
            elif base is None:
                base = tok
            else:
                idx = tok
        else:
            v = int(tok, 0)
            disp += -v if sign == "-" else v
    return base, idx, scale, disp


class Finding(Exception):
    pass


class FrameAnalyzer:
    def __init__(self, lib, max_states=200000):
        self.lib = lib
        self.max_states = max_states
        self.stats = {"paths": 0, "steps": 0, "vcs": 0, "solver_s": 0.0, "rets": 0, "inlined_calls": 0, "external_calls": 0, "dynamic_stack_stores": 0}

    def opsize(self, i, op):
        m = _mem.search(op)
        if m and m.group(1):
            return SIZE_KW[m.group(1)]
        ops = split_ops(i.text)
        for o in ops:
            o2 = re.sub(r"\{.*?\}", "", o).strip()
            if o2 in REGMAP:
                return REGMAP[o2][1] // 8
            if o2.startswith("xmm"):
                return 16
            if o2.startswith("ymm"):
                return 32
            if o2.startswith("zmm"):
                return 64
        return 8

    def addr_of(self, st, expr):
        """abstract address of a memory operand: SP value, or None (not stack), or 'dyn' (stack with unknown index)"""
        base, idx, scale, disp = parse_addr(expr)
        if base in (None, "rip"):
            return None
        b = st.regs.get(REGMAP[base][0]) if base in REGMAP else None
        if REGMAP.get(base, (None, 0))[1] != 64:
            return None
        iv = st.regs.get(REGMAP[idx][0]) if idx in REGMAP else None
        if isinstance(b, SP):
            if idx is None:
                return SP(b.base, b.off + disp)
            return ("dyn", b.base, b.off + disp)
        if isinstance(iv, SP) and scale == 1 and REGMAP[idx][1] == 64:
            return ("dyn", iv.base, iv.off + disp)
        return None

    def store(self, st, a, size, val, i, entry_name):
        if isinstance(a, tuple):   # dynamic index into the stack frame
            self.stats["dynamic_stack_stores"] += 1
            base = a[1]
            # assumed to stay inside the function's own locals: slots at or above the lowest saved register are unaffected
            return
        base, off = a.base, a.off
        if base == 0 and off + size > 0:
            st.highstore = "%s:%s+0x%x %s %s writes [rsp_entry%+d, +%d) - at or above the return address" % (st.pc[0].name, st.pc[1], i.addr, i.mnem, i.text, off, size)
        # invalidate overlapping slots of the same base
        for (b2, o2), (s2, v2) in list(st.slots.items()):
            if b2 == base and o2 < off + size and o2 + s2 > off and not (o2 == off and s2 == size):
                del st.slots[(b2, o2)]
        # aligned bases may alias their parent chain (worst case gap 0, see DESIGN: x+size <= frame is safe)
        b, x = base, off
        while b in st.bases:
            pb, po = st.bases[b]
            lo, hi = po + x - 63, po + x + size
            for (b2, o2), (s2, v2) in list(st.slots.items()):
                if b2 == pb and o2 < hi and o2 + s2 > lo:
                    del st.slots[(b2, o2)]
            b, x = pb, po + x
        if size == 8 and not isinstance(val, UNK):
            st.slots[(base, off)] = (size, val)      # only slots holding a tracked value are remembered
        else:
            st.slots.pop((base, off), None)

    def load(self, st, a, size):
        if isinstance(a, tuple) or a is None:
            return U
        v = st.slots.get((a.base, a.off))
        if v and v[0] == size == 8:
            return v[1]
        return U

    def check_ret(self, st, i, entry, what):
        """VC at a return / tail transfer: decided by z3 over the entry symbols."""
        self.stats["rets"] += 1
        sym = {r: z3.BitVec("entry_" + r, 64) for r in GPR64}
        fresh = [0]

        def term(v):
            if isinstance(v, SP):
                if v.base == 0:
                    return sym["rsp"] + z3.BitVecVal(v.off & 0xffffffffffffffff, 64)
                fresh[0] += 1
                return z3.BitVec("aligned_base_%d_%d" % (v.base, fresh[0]), 64) + z3.BitVecVal(v.off & 0xffffffffffffffff, 64)
            if isinstance(v, ENT):
                return sym[v.reg]
            fresh[0] += 1
            return z3.BitVec("havoc_%d" % fresh[0], 64)
        problems = []
        want_rsp = sym["rsp"]   # at a ret / tail jump rsp must point at the caller's return address again
        goals = [("rsp", term(st.regs["rsp"]), want_rsp)] + [(r, term(st.regs[r]), sym[r]) for r in CALLEE]
        import time
        for name, have, want in goals:
            s = z3.Solver()
            s.add(have != want)
            t = time.time()
            r = s.check()
            self.stats["solver_s"] += time.time() - t
            self.stats["vcs"] += 1
            if r != z3.unsat:
                v = st.regs[name]
                desc = ("rsp_entry%+d" % v.off if isinstance(v, SP) and v.base == 0 else "a realigned stack pointer" if isinstance(v, SP) else
                        "the entry value of %s" % v.reg if isinstance(v, ENT) else "an unrelated value")
                problems.append("%s holds %s at %s (%s:%s+0x%x)" % (name, desc, what, st.pc[0].name, st.pc[1], i.addr))
        if st.highstore:
            problems.append(st.highstore)
        return problems

    def analyze(self, entry_name, start):
        """Returns list of problems (strings) for one entry point; raises Finding for engine limits."""
        st = State()
        for r in GPR64:
            st.regs[r] = ENT(r) if r in CALLEE else U
        st.regs["rsp"] = SP(0, 0)
        for r in ("rdi", "rsi", "rdx", "rcx", "r8", "r9", "rax", "r10", "r11"):
            st.regs[r] = U
        st.pc = start
        st.slots[(0, 0)] = (8, RET("caller"))
        work, seen, problems = [st], set(), []
        nbase = [0, {}]
        nsteps = 0
        while work:
            st = work.pop()
            self.stats["paths"] += 1
            at_leader = True
            while True:
                if at_leader:      # subsumption is checked at basic-block leaders only
                    self.prune(st)
                    k = hash(st.key())
                    if k in seen:
                        break
                    seen.add(k)
                    at_leader = False
                nsteps += 1
                if nsteps > self.max_states:
                    raise Finding("step bound exceeded (%d instructions)" % nsteps)
                o, sec, a = st.pc
                d = o.sections.get(sec, {})
                i = d.get(a)
                if i is None:
                    raise Finding("control reaches undecoded bytes at %s:%s+0x%x" % (o.name, sec, a))
                self.stats["steps"] += 1
                mn = i.mnem
                ops = split_ops(i.text)
                nxt = (o, sec, a + i.size)
                if mn in FORBIDDEN and FORBIDDEN[mn]:
                    problems.append("%s:%s+0x%x: %s %s" % (o.name, sec, a, mn, FORBIDDEN[mn]))
                if mn in ("ret", "retq"):
                    if st.callstack:
                        site = st.callstack[-1]
                        v = st.regs["rsp"]
                        top = st.slots.get((v.base, v.off)) if isinstance(v, SP) else None
                        if not (top and isinstance(top[1], RET) and top[1].site == site):
                            problems.append("%s: helper returns with rsp not pointing at its return address (%s:%s+0x%x)" % (entry_name, o.name, sec, a))
                            break
                        st.regs["rsp"] = SP(v.base, v.off + 8)
                        del st.slots[(v.base, v.off)]
                        st.callstack = st.callstack[:-1]
                        st.pc = site[1]
                        at_leader = True
                        continue
                    # the entry point itself returns
                    problems += self.check_ret(st, i, entry_name, "ret")
                    break
                if mn == "jmp":
                    tgt = None
                    if "[" in i.text or re.match(r"^r[a-z0-9]+$", i.text.strip()):
                        # indirect: a tail call through a dispatch slot (ABI-conforming callee assumed)
                        if st.callstack:
                            raise Finding("indirect jmp inside an inlined helper at %s:%s+0x%x" % (o.name, sec, a))
                        problems += self.check_ret(st, i, entry_name, "tail-jump")
                        break
                    if i.reloc_sym is not None:
                        tgt = self.lib.resolve(o, i)
                        if tgt is None:
                            problems += self.check_ret(st, i, entry_name, "tail-jump")   # external (libc) tail call
                            break
                    elif i.target is not None:
                        tgt = (o, sec, i.target)
                    st.pc = tgt
                    at_leader = True
                    continue
                if mn == "call":
                    tgt = None
                    if "[" not in i.text and not re.match(r"^r[a-z0-9]+$", i.text.strip()):
                        if i.reloc_sym is not None:
                            tgt = self.lib.resolve(o, i)
                        elif i.target is not None:
                            tgt = (o, sec, i.target)
                    v = st.regs["rsp"]
                    is_stub = False
                    if tgt is not None:
                        ti = tgt[0].sections.get(tgt[1], {}).get(tgt[2])
                        if ti is not None and ti.mnem == "endbr64":
                            ti = tgt[0].sections[tgt[1]].get(tgt[2] + ti.size)
                        is_stub = ti is not None and ti.mnem == "jmp" and "[" in ti.text
                    if i.reloc_sym in NORETURN:
                        break
                    if tgt is None or is_stub or len(st.callstack) >= 6:
                        # external / dispatched callee: conforms to the ABI (its own entry is checked separately)
                        self.stats["external_calls"] += 1
                        for r in CALLER:
                            st.regs[r] = U
                        st.pc = nxt
                        continue
                    if not isinstance(v, SP):
                        raise Finding("call with untracked stack pointer at %s:%s+0x%x" % (o.name, sec, a))
                    self.stats["inlined_calls"] += 1
                    site = ("%s:%s:%x" % (o.name, sec, a), nxt)
                    st.regs["rsp"] = SP(v.base, v.off - 8)
                    self.store(st, SP(v.base, v.off - 8), 8, RET(site), i, entry_name)
                    st.callstack = st.callstack + (site,)
                    st.pc = tgt
                    at_leader = True
                    continue
                if mn.startswith("j") and (i.target is not None or i.reloc_sym is not None):
                    t = (o, sec, i.target) if i.target is not None else self.lib.resolve(o, i)
                    if t is not None:
                        q = st.clone()
                        q.pc = t
                        work.append(q)
                    st.pc = nxt
                    at_leader = True
                    continue
                if mn in ("loop", "loope", "loopne", "jrcxz", "jecxz"):
                    raise Finding("unsupported control instruction %s" % mn)
                if mn in ("hlt", "ud2", "int3"):
                    break
                self.step(st, i, mn, ops, nbase, entry_name)
                st.pc = nxt
        return problems

    def base_id(self, nbase, v, pc):
        """canonical id of an aligned stack area: same creation site + same parent position = same id"""
        k = (v.base, v.off, pc[0].name, pc[1], pc[2])
        tab = nbase[1]
        if k not in tab:
            tab[k] = len(tab) + 1
        return tab[k]

    def prune(self, st):
        """forget slots below the current stack pointer (dead stack) and aligned areas that were created below it"""
        v = st.regs["rsp"]
        if not isinstance(v, SP):
            return
        live_bases = set()
        b = v.base
        while True:
            live_bases.add(b)
            if b in st.bases:
                b = st.bases[b][0]
            else:
                break
        for (b2, o2) in list(st.slots):
            if b2 == v.base and o2 < v.off:
                del st.slots[(b2, o2)]
            elif b2 not in live_bases:
                # an aligned area whose creation point lies at or below... it is dead once rsp is back above its parent position
                pb, po = st.bases.get(b2, (None, None))
                if pb == v.base and po is not None and po <= v.off:
                    del st.slots[(b2, o2)]
                elif pb is not None and pb not in live_bases and pb != v.base:
                    del st.slots[(b2, o2)]

    def val_of(self, st, op):
        op = op.strip()
        if op in REGMAP:
            r, b = REGMAP[op]
            return st.regs[r] if b == 64 else U
        return U

    def step(self, st, i, mn, ops, nbase, entry):
        if mn == "push":
            v = st.regs["rsp"]
            if not isinstance(v, SP):
                raise Finding("push with untracked rsp at 0x%x" % i.addr)
            st.regs["rsp"] = SP(v.base, v.off - 8)
            self.store(st, SP(v.base, v.off - 8), 8, self.val_of(st, ops[0]), i, entry)
            return
        if mn == "pop":
            v = st.regs["rsp"]
            if not isinstance(v, SP):
                raise Finding("pop with untracked rsp at 0x%x" % i.addr)
            val = self.load(st, v, 8)
            st.regs["rsp"] = SP(v.base, v.off + 8)
            if ops[0] in REGMAP:
                r, b = REGMAP[ops[0]]
                st.regs[r] = val if b == 64 else U
            return
        if mn == "leave":
            v = st.regs["rbp"]
            if not isinstance(v, SP):
                raise Finding("leave with untracked rbp at 0x%x" % i.addr)
            st.regs["rbp"] = self.load(st, v, 8)
            st.regs["rsp"] = SP(v.base, v.off + 8)
            return
        if mn in ("pushf", "pushfq"):
            v = st.regs["rsp"]
            st.regs["rsp"] = SP(v.base, v.off - 8)
            self.store(st, SP(v.base, v.off - 8), 8, U, i, entry)
            return
        if mn in ("mov", "movq", "vmovq", "movabs") and len(ops) == 2:
            d, s = ops
            dm, sm = _mem.search(d) if "[" in d else None, _mem.search(s) if "[" in s else None
            if d in REGMAP and REGMAP[d][1] == 64:
                if s in REGMAP:
                    st.regs[REGMAP[d][0]] = self.val_of(st, s)
                elif sm:
                    a = self.addr_of(st, sm.group(2))
                    st.regs[REGMAP[d][0]] = self.load(st, a, 8) if a is not None else U
                else:
                    st.regs[REGMAP[d][0]] = U
                return
            if dm and s in REGMAP:
                a = self.addr_of(st, dm.group(2))
                if a is not None:
                    self.store(st, a, self.opsize(i, d), self.val_of(st, s), i, entry)
                return
        if mn == "lea" and ops[0] in REGMAP:
            r, b = REGMAP[ops[0]]
            m = _mem.search(ops[1])
            a = self.addr_of(st, m.group(2)) if m else None
            st.regs[r] = a if (isinstance(a, SP) and b == 64) else U
            return
        if mn in ("add", "sub") and ops[0] in REGMAP and REGMAP[ops[0]][1] == 64 and isinstance(st.regs[REGMAP[ops[0]][0]], SP):
            r = REGMAP[ops[0]][0]
            v = st.regs[r]
            if re.match(r"^-?(0x[0-9a-f]+|\d+)$", ops[1]):
                k = int(ops[1], 0)
                if k >= 1 << 63:
                    k -= 1 << 64
                elif k >= 1 << 31 and k < 1 << 32:
                    k -= 1 << 32
                st.regs[r] = SP(v.base, v.off + (k if mn == "add" else -k))
                return
            if r == "rsp":
                raise Finding("rsp adjusted by a non-constant at %s+0x%x" % (st.pc[1], i.addr))
            st.regs[r] = U
            return
        if mn == "and" and ops[0] == "rsp":
            v = st.regs["rsp"]
            if not isinstance(v, SP):
                raise Finding("and rsp with untracked rsp")
            b = self.base_id(nbase, v, st.pc)
            st.bases[b] = (v.base, v.off)
            st.regs["rsp"] = SP(b, 0)
            return
        if mn == "and" and ops[0] in REGMAP and REGMAP[ops[0]][1] == 64 and isinstance(st.regs[REGMAP[ops[0]][0]], SP):
            # aligning a copy of the stack pointer (e.g. rax = rsp & -64): a new aligned base
            v = st.regs[REGMAP[ops[0]][0]]
            b = self.base_id(nbase, v, st.pc)
            st.bases[b] = (v.base, v.off)
            st.regs[REGMAP[ops[0]][0]] = SP(b, 0)
            return
        if mn == "xchg" and len(ops) == 2 and ops[0] in REGMAP and ops[1] in REGMAP:
            a, b = REGMAP[ops[0]][0], REGMAP[ops[1]][0]
            if REGMAP[ops[0]][1] == 64:
                st.regs[a], st.regs[b] = st.regs[b], st.regs[a]
            else:
                st.regs[a] = st.regs[b] = U
            return
        # ---- generic effects
        if mn in ("mul", "imul", "div", "idiv") and len(ops) == 1:
            st.regs["rax"] = st.regs["rdx"] = U
        elif mn == "cpuid":
            for r in ("rax", "rbx", "rcx", "rdx"):
                st.regs[r] = U
        elif mn in ("xgetbv", "rdtsc", "rdtscp"):
            st.regs["rax"] = st.regs["rdx"] = U
            if mn == "rdtscp":
                st.regs["rcx"] = U
        elif mn in ("cmpxchg",):
            st.regs["rax"] = U
        elif mn in ("movs", "movsb", "movsw", "movsd", "movsq", "stos", "stosb", "stosw", "stosd", "stosq", "lods", "cmps", "scas") and not ops:
            for r in ("rsi", "rdi", "rcx", "rax"):
                st.regs[r] = U
        elif mn == "mulx" and len(ops) == 3:
            for o_ in ops[:2]:
                if o_ in REGMAP:
                    st.regs[REGMAP[o_][0]] = U
            return
        elif mn in ("xadd",):
            for o_ in ops:
                if o_ in REGMAP:
                    st.regs[REGMAP[o_][0]] = U
        if ops:
            d = re.sub(r"\{.*?\}", "", ops[0]).strip()
            if mn in NOWRITE:
                return
            if d in REGMAP:
                r, b = REGMAP[d]
                if r == "rsp":
                    raise Finding("unmodelled write to rsp: %s %s at %s+0x%x" % (mn, i.text, st.pc[1], i.addr))
                st.regs[r] = U
            elif "[" in d:
                m = _mem.search(d)
                a = self.addr_of(st, m.group(2)) if m else None
                if a is not None:
                    self.store(st, a, self.opsize(i, d), U, i, entry)
