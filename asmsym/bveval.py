"""Concrete evaluation of a z3 bit-vector term under an assignment of its constants, with the real AES / CLMUL
semantics for the uninterpreted functions (used for random-simulation prefilters and for validating the
symbolic results against native runs)."""
import z3
import aesprim
from bvutil import mask

K = z3


def evaluate(t, env, memo=None):
    """t: z3 expr (BitVec or Bool); env: name -> int. Returns int (bools as 0/1)."""
    memo = {} if memo is None else memo
    stack = [(t, False)]
    while stack:
        x, ready = stack.pop()
        i = x.get_id()
        if i in memo:
            continue
        ch = x.children()
        if not ready and ch:
            stack.append((x, True))
            for c in ch:
                if c.get_id() not in memo:
                    stack.append((c, False))
            continue
        memo[i] = (_ev(x, [memo[c.get_id()][0] for c in ch], env), x)   # the term is kept alive: z3 reuses ids of freed ASTs
    return memo[t.get_id()][0]


def _ev(x, a, env):
    k = x.decl().kind()
    if z3.is_bv_value(x):
        return x.as_long()
    if k == z3.Z3_OP_TRUE:
        return 1
    if k == z3.Z3_OP_FALSE:
        return 0
    w = x.size() if z3.is_bv(x) else 1
    m = mask(w)
    if k == z3.Z3_OP_UNINTERPRETED:
        n = x.decl().name()
        if not a:
            if n not in env:
                raise KeyError(n)
            return env[n] & m
        if n.startswith("AES_") and n != "AES_SB":
            return aesprim.conc(n[4:], a[0])
        if n == "AES_SB":
            return aesprim.SBOX[a[0] & 0xff]
        if n == "CLMUL":
            return aesprim.clmul64(a[0], a[1])
        raise KeyError("uninterpreted function " + n)
    if k == z3.Z3_OP_EXTRACT:
        hi, lo = x.params()
        return (a[0] >> lo) & mask(hi - lo + 1)
    if k == z3.Z3_OP_CONCAT:
        r = 0
        for c, v in zip(x.children(), a):
            r = (r << c.size()) | v
        return r
    if k == z3.Z3_OP_BXOR:
        r = 0
        for v in a:
            r ^= v
        return r
    if k == z3.Z3_OP_BAND:
        r = m
        for v in a:
            r &= v
        return r
    if k == z3.Z3_OP_BOR:
        r = 0
        for v in a:
            r |= v
        return r
    if k == z3.Z3_OP_BNOT:
        return ~a[0] & m
    if k == z3.Z3_OP_BADD:
        return sum(a) & m
    if k == z3.Z3_OP_BSUB:
        r = a[0]
        for v in a[1:]:
            r -= v
        return r & m
    if k == z3.Z3_OP_BMUL:
        r = 1
        for v in a:
            r = (r * v) & m
        return r
    if k == z3.Z3_OP_BNEG:
        return (-a[0]) & m
    if k == z3.Z3_OP_BSHL:
        return (a[0] << a[1]) & m if a[1] < w else 0
    if k == z3.Z3_OP_BLSHR:
        return a[0] >> a[1] if a[1] < w else 0
    if k == z3.Z3_OP_BASHR:
        s = a[0] >> (w - 1)
        n = min(a[1], w - 1)
        r = a[0] >> n
        return (r | (m ^ mask(w - n))) & m if s else r
    if k == z3.Z3_OP_ROTATE_LEFT:
        n = x.params()[0] % w
        return ((a[0] << n) | (a[0] >> (w - n))) & m if n else a[0]
    if k == z3.Z3_OP_ROTATE_RIGHT:
        n = x.params()[0] % w
        return ((a[0] >> n) | (a[0] << (w - n))) & m if n else a[0]
    if k == z3.Z3_OP_ZERO_EXT:
        return a[0]
    if k == z3.Z3_OP_SIGN_EXT:
        c = x.children()[0].size()
        return (a[0] | (m ^ mask(c))) if (a[0] >> (c - 1)) else a[0]
    if k == z3.Z3_OP_ITE:
        return a[1] if a[0] else a[2]
    if k == z3.Z3_OP_EQ:
        return int(a[0] == a[1])
    if k == z3.Z3_OP_DISTINCT:
        return int(a[0] != a[1])
    if k == z3.Z3_OP_NOT:
        return 1 - a[0]
    if k == z3.Z3_OP_AND:
        return int(all(a))
    if k == z3.Z3_OP_OR:
        return int(any(a))
    if k == z3.Z3_OP_XOR:
        return a[0] ^ a[1]
    if k == z3.Z3_OP_ULT:
        return int(a[0] < a[1])
    if k == z3.Z3_OP_ULEQ:
        return int(a[0] <= a[1])
    if k == z3.Z3_OP_UGT:
        return int(a[0] > a[1])
    if k == z3.Z3_OP_UGEQ:
        return int(a[0] >= a[1])
    raise KeyError("operator %s in %s" % (x.decl().name(), str(x)[:80]))
