"""Run one assembled AES entry point symbolically under a scenario (SysV arguments, regions) and evaluate the
monitors: footprint (C08), stale dependence (C20), key residue (C14), callee-saved frame (C19), plus the
data obligations handed in by the caller (C03/C04/C02/C07)."""
import os, time, hashlib, json
import z3
import common, loader, vecsym, aesprim
from bvutil import *

STACK_TOP = 0x7fff8000
STACK_BASE = 0x7ffe0000
ARGREGS = ["rdi", "rsi", "rdx", "rcx", "r8", "r9"]
CALLEE = ["rbx", "rbp", "r12", "r13", "r14", "r15"]


class Case:
    def __init__(self, name, func):
        self.name, self.func = name, func
        self.regions = []     # (name, size, kind) kind: in (symbolic input, read-only), out (stale prefill, writable), inout, secret_in
        self.args = []        # ints or ("ptr", region name, offset)
        self.stack_args = []
        self.next = 0x30000000
        self.align = {}

    def region(self, name, size, kind, align_off=0, content=None):
        base = self.next + align_off
        self.next += ((size + align_off + 0xfff) & ~0xfff) + 0x2000      # guard gap
        self.regions.append((name, base, size, kind, content))
        return base


class Result:
    pass


def run_case(img, case, secrets=None, max_steps=3000000, prepare=None):
    """Execute; returns Result with outputs accessor, violations, residue hits, frame status."""
    mem = vecsym.Mem()
    for r in img.regions:
        mem.add(r)
    regs = {}
    for (name, base, size, kind, content) in case.regions:
        r = mem.add(vecsym.Region(name, base, size, readable=True, writable=kind in ("out", "inout", "state"), kind=kind))
        if content is not None:
            for off, (val, bits) in content.items():
                mem.set_value(r, off, val, bits)
            # everything not given is stale
            for k in range(size):
                if k not in r.bytes:
                    pass
        if kind in ("in", "inout", "secret_in") and content is None:
            mem.fill(r, "in")
        elif kind in ("out",) and content is None:
            mem.fill(r, "stale")
        regs[name] = r
    stack = mem.add(vecsym.Region("stack", STACK_BASE, STACK_TOP + 0x100 - STACK_BASE, kind="stack"))
    m = vecsym.Machine(img.insns, mem)
    m.g["rsp"] = STACK_TOP
    mem.set_value(stack, STACK_TOP - STACK_BASE, 0xdead0000, 64)
    for k, a in enumerate(case.args[:6]):
        m.g[ARGREGS[k]] = a
    for k, a in enumerate(case.args[6:]):
        mem.set_value(stack, STACK_TOP - STACK_BASE + 8 + 8 * k, a, 64)
    entry_callee = {r: m.g[r] for r in CALLEE}
    res = Result()
    res.mem, res.machine, res.regions, res.stack = mem, m, regs, stack
    t = time.time()
    res.error = None
    if prepare is not None:
        prepare(m, mem, regs)
    calls = getattr(case, "calls", None) or [(case.func, None)]
    try:
        for ci, (fn, cargs) in enumerate(calls):
            if cargs is not None:
                # a further call on the same memory: the caller-saved registers, flags and vector state are garbage again
                for r_ in ("rax", "rcx", "rdx", "rsi", "rdi", "r8", "r9", "r10", "r11"):
                    m.g[r_] = z3.BitVec("stale_%s_call%d" % (r_, ci), 64)
                for k in range(32):
                    m.v[k] = z3.BitVec("stale_zmm%d_call%d" % (k, ci), 512)
                for k in range(8):
                    m.k[k] = z3.BitVec("stale_k%d_call%d" % (k, ci), 64)
                m.flags = {f: z3.Bool("stale_flag_%s_call%d" % (f, ci)) for f in ("zf", "cf", "sf", "of")}
                m.g["rsp"] = STACK_TOP
                mem.set_value(stack, STACK_TOP - STACK_BASE, 0xdead0000, 64)
                for k, a in enumerate(cargs[:6]):
                    m.g[ARGREGS[k]] = a
                for k, a in enumerate(cargs[6:]):
                    mem.set_value(stack, STACK_TOP - STACK_BASE + 8 + 8 * k, a, 64)
            if fn not in img.symbols:
                raise vecsym.Unsupported("symbol %s not found" % fn)
            m.run(img.symbols[fn], max_steps=max_steps)
            if ci + 1 < len(calls) and simp(m.g["rsp"]) != STACK_TOP + 8:
                raise vecsym.Violation("%s returns with a wrong stack pointer" % fn)
    except vecsym.Unsupported as u:
        res.error = "unsupported: %s" % u
    except vecsym.Violation as v:
        res.error = "violation: %s" % v
    res.wall = time.time() - t
    res.steps = m.steps
    res.violations = list(mem.violations)
    # frame
    res.frame = []
    if res.error is None:
        if simp(m.g["rsp"]) != STACK_TOP + 8:
            res.frame.append("rsp = %s instead of entry+8 after ret" % m.g["rsp"])
        for r in CALLEE:
            if not (not is_c(m.g[r]) and m.g[r].eq(entry_callee[r])):
                s = z3.Solver()
                s.add(tz(m.g[r], 64) != entry_callee[r])
                if s.check() != z3.unsat:
                    res.frame.append("%s not restored" % r)
        above = [o for o in stack.written if o >= STACK_TOP - STACK_BASE]
        if above:
            res.frame.append("stack written at/above the return address (offsets %s)" % sorted(above)[:4])
    return res


def stale_dependence(val):
    """names of stale_* symbols that a value depends on: syntactic occurrence after simplification, confirmed by the solver
    (two executions that differ only in the stale symbols produce different values)"""
    if is_c(val):
        return []
    st = sorted(v for v in free_vars(val) if v.startswith("stale_"))
    if not st:
        return []
    sv = z3.simplify(val)
    if z3.is_bv_value(sv):
        return []
    st = sorted(v for v in free_vars(sv) if v.startswith("stale_"))
    if not st:
        return []
    # semantic confirmation
    consts = {}
    stack, seen = [sv], set()
    while stack:
        x = stack.pop()
        if x.get_id() in seen:
            continue
        seen.add(x.get_id())
        if z3.is_const(x) and x.decl().kind() == z3.Z3_OP_UNINTERPRETED:
            if x.decl().name().startswith("stale_"):
                consts[x.decl().name()] = x
        else:
            stack.extend(x.children())
    ren = [(c, z3.BitVec(n + "_other", c.size()) if z3.is_bv(c) else z3.Bool(n + "_other")) for n, c in consts.items()]
    s = z3.Solver()
    s.set("timeout", 20000)
    s.add(sv != z3.substitute(sv, *ren))
    r = s.check()
    if r == z3.unsat:
        return []
    return st


def prove_equal(a, b, bits, timeout_ms=60000, hyps=(), sim=None):
    """-> ('proved' | 'refuted' | 'unknown', model or None, seconds).  With a CutTable `sim`, both sides are first evaluated
    concretely under random inputs (cut symbols take the values of their definitions): a difference is a concrete
    counterexample; equality is only ever concluded from the solver."""
    t = time.time()
    if is_c(a) and is_c(b):
        return ("proved" if (a & mask(bits)) == (b & mask(bits)) else "refuted"), None, 0.0
    ta, tb = tz(a, bits), tz(b, bits)
    if ta.eq(tb):
        return "proved", None, 0.0
    if sim is not None:
        w = sim.differs(ta, tb)
        if w is not None:
            return "refuted", w, time.time() - t
    sa, sb = z3.simplify(ta), z3.simplify(tb)
    if sa.eq(sb):
        return "proved", None, time.time() - t
    s = z3.Solver()
    s.set("timeout", timeout_ms)
    for h in hyps:
        s.add(h)
    s.add(sa != sb)
    r = s.check()
    dt = time.time() - t
    if r == z3.unsat:
        return "proved", None, dt
    if r == z3.sat:
        return "refuted", s.model(), dt
    return "unknown", None, dt


def residue(res, secrets, keyvars):
    """secrets: list of (label, 128-bit value). Returns hits: (where, label).  A 128-bit lane of any vector register, or any
    16-byte window of stack memory written below the entry rsp, that is provably equal to a secret."""
    hits = []
    m, mem = res.machine, res.mem
    import random
    rnd = random.Random(common.SEED)
    nq = 0
    # random-simulation prefilter: under a random assignment of the key symbols, only a lane whose value coincides with a
    # secret's value can be equal to it for all keys; the candidate is then confirmed by the solver (lane != secret unsat)
    import bveval
    env = {}

    def sim(t):
        t = tz(t, 128)
        for n_ in free_vars(t):
            if n_ not in env:
                env[n_] = rnd.getrandbits(512)
        return bveval.evaluate(t, env)
    sec_sim = {}
    for lab, v in secrets:
        if not is_c(v):
            sec_sim.setdefault(sim(v), []).append((lab, v))

    def check(where, lane):
        nonlocal nq
        if is_c(lane):
            return
        fv = free_vars(lane)
        if not (fv & keyvars) or (fv - keyvars):
            return      # only lanes built exclusively from key material can equal a secret for every data value
        for lab, v in sec_sim.get(sim(lane), []):
            s = z3.Solver()
            s.set("timeout", 20000)
            s.add(tz(lane, 128) != tz(v, 128))
            nq += 1
            if s.check() == z3.unsat:
                hits.append((where, lab))
                return
    for idx in range(32):
        for l in range(4):
            check("zmm%d[%d:%d]" % (idx, 128 * l + 127, 128 * l), ext(m.v[idx], 128 * l + 127, 128 * l))
    st = res.stack
    lim = STACK_TOP - STACK_BASE
    offs = sorted(o for o in st.written if o < lim)
    seen = set()
    for o in offs:
        for start in (o - (o % 16), o - (o % 8)):
            if start in seen or start + 16 > lim or not all((start + k) in st.bytes for k in range(16)):
                continue
            seen.add(start)
            check("stack[rsp_entry%+d .. +16)" % (start - lim), mem.get(st, start, 128))
    res.residue_queries = nq
    return hits


class CutTable:
    """Cut points for equivalence proofs: specification terms (e.g. FIPS-197 round keys as functions of the raw key)
    registered under a random-simulation signature.  When the machine meets an implementation term with the same
    signature, z3 proves the two equal once; from then on the implementation term is replaced by a fresh symbol
    that also stands for the specification term (sound: equality was proved)."""

    def __init__(self, seed=1):
        import random
        self.rnd = random.Random(seed)
        self.env = {}
        self.by_sig = {}
        self.cache = {}
        self.proved = 0
        self.solver_s = 0.0
        self.keep = []
        self.symbols = {}     # label -> symbol

    def _sig(self, t):
        import bveval
        if getattr(self, "fast", False):
            # UF-free terms: evaluate inside z3 (substitute the random assignment, simplify to a numeral)
            if not hasattr(self, "pairs"):
                self.pairs = {}
            r = self._subst(t)
            if not z3.is_bv_value(r):
                for n_ in free_vars(r):
                    if n_ not in self.pairs:
                        if n_ not in self.env:
                            self.env[n_] = self.rnd.getrandbits(512)
                        v_ = self._var_of(r, n_)
                        self.pairs[n_] = (v_, z3.BitVecVal(self.env[n_] & ((1 << v_.size()) - 1), v_.size()))
                r = self._subst(t)
            if z3.is_bv_value(r):
                return r.as_long()
        if not hasattr(self, "memo"):
            self.memo = {}
            self.fvseen = set()
        for n_ in free_vars(t, seen=self.fvseen):
            if n_ not in self.env:
                self.env[n_] = self.rnd.getrandbits(512)
        return bveval.evaluate(t, self.env, self.memo)

    def _subst(self, t):
        """simplify(t[vars := random values]) through the C API (the Python wrapper re-checks every pair on every call)"""
        import z3.z3core as core
        n = len(self.pairs)
        if getattr(self, "_arr_n", -1) != n:
            vals = list(self.pairs.values())
            self._from = (core.Ast * n)(*[v.as_ast() for v, _ in vals])
            self._to = (core.Ast * n)(*[c.as_ast() for _, c in vals])
            self._keepalive = vals
            self._arr_n = n
        if n == 0:
            return z3.simplify(t)
        ctx = t.ctx
        r = core.Z3_substitute(ctx.ref(), t.as_ast(), n, self._from, self._to)
        return z3.simplify(z3.BitVecRef(r, ctx))

    def _var_of(self, t, name):
        stack, seen = [t], set()
        while stack:
            x = stack.pop()
            if x.get_id() in seen:
                continue
            seen.add(x.get_id())
            if z3.is_const(x) and x.decl().kind() == z3.Z3_OP_UNINTERPRETED and x.decl().name() == name:
                return x
            stack.extend(x.children())
        raise KeyError(name)

    def hypotheses(self):
        """definitions of the cut symbols (each proved wherever it was substituted): sym == defining specification term"""
        return [sym == spec for lst in self.by_sig.values() for (_, spec, sym) in lst]

    def register(self, label, spec_term):
        """returns the symbol standing for spec_term"""
        if is_c(spec_term):
            return spec_term
        sym = z3.BitVec("cut_" + label.replace(" ", "_"), spec_term.size())
        if not hasattr(self, "order_index"):
            self.order_index = {}
        self.order_index[sym.decl().name()] = len(self.order_index)
        self.env[sym.decl().name()] = self._sig(spec_term)
        if getattr(self, "fast", False):
            self.pairs[sym.decl().name()] = (sym, z3.BitVecVal(self.env[sym.decl().name()], spec_term.size()))
        self.by_sig.setdefault(self.env[sym.decl().name()], []).append((label, spec_term, sym))
        self.symbols[label] = sym
        if not hasattr(self, "defs_inc"):
            self.defs_inc = {}
        self.defs_inc[sym.decl().name()] = (sym, spec_term)
        return sym

    def differs(self, a, b, trials=3):
        """concrete evaluation under the main environment and `trials` further random environments (each consistent with the
        cut definitions, evaluated in registration order); returns a witness dict or None"""
        import bveval
        if self._sig(a) != self._sig(b):
            return {"environment": "primary", "lhs": hex(self._sig(a)), "rhs": hex(self._sig(b))}
        if not hasattr(self, "extra"):
            self.extra = []
        while len(self.extra) < trials:
            self.extra.append(({}, {}))
        names = free_vars(a) | free_vars(b)
        for k, (env, memo) in enumerate(self.extra):
            order = [(sym, spec) for lst in self.by_sig.values() for (lab, spec, sym) in lst if not lab.startswith("T") or " from " not in lab]
            # base variables
            todo = set(names)
            for sym, spec in order:
                todo |= free_vars(spec)
            for n_ in todo:
                if n_ not in env and not n_.startswith("cut_"):
                    env[n_] = self.rnd.getrandbits(512)
            for sym, spec in sorted(order, key=lambda x: self.order_index.get(x[0].decl().name(), 0)):
                n_ = sym.decl().name()
                if n_ not in env:
                    env[n_] = bveval.evaluate(spec, env, memo)
            va, vb = bveval.evaluate(a, env, memo), bveval.evaluate(b, env, memo)
            if va != vb:
                return {"environment": "random #%d" % (k + 1), "lhs": hex(va), "rhs": hex(vb)}
        return None

    def alias(self, label, spec_term, sym):
        """a second defining term for an existing cut symbol (the caller has proved the two definitions equal)"""
        sig = self._sig(spec_term)
        self.by_sig.setdefault(sig, []).append((label, spec_term, sym))
        self.has_alias = True

    def canon(self, t):
        if is_c(t):
            return t
        i = t.get_id()
        if i in self.cache:
            return self.cache[i]
        r = t
        if not (z3.is_const(t) and t.decl().name().startswith("cut_")):
            for label, spec, sym in self.by_sig.get(self._sig(t), []):
                if spec.size() != t.size():
                    continue
                t0 = time.time()
                s = z3.Solver()
                s.set("timeout", 60000)
                # definitions of the cut symbols that occur on either side (each was itself proved where it was introduced)
                names = free_vars(t) | free_vars(spec)
                if getattr(self, "has_alias", False):
                    defs = {d_sym.decl().name(): (d_sym, d_spec) for lst in self.by_sig.values() for (_, d_spec, d_sym) in lst}
                else:
                    defs = getattr(self, "defs_inc", {})     # maintained by register(): rebuilding it per proof is quadratic in the number of cuts
                todo, done_ = [n for n in names if n in defs], set()
                while todo:
                    n = todo.pop()
                    if n in done_ or n == sym.decl().name():
                        continue
                    done_.add(n)
                    d_sym, d_spec = defs[n]
                    s.add(d_sym == d_spec)
                    if n.startswith("cut_T"):       # follow the (small) tweak-chain definitions back to T0
                        todo += [m_ for m_ in free_vars(d_spec) if m_ in defs and m_.startswith("cut_T")]
                s.add(t != spec)
                ok = s.check() == z3.unsat
                self.solver_s += time.time() - t0
                if ok:
                    self.proved += 1
                    r = sym
                    break
                elif os.environ.get("VERIF_DEBUG_CUTS"):
                    print("CUT proof failed for", label, "impl:", str(z3.simplify(t))[:300], "spec:", str(z3.simplify(spec))[:300])
        self.cache[i] = r
        self.keep.append(t)      # keep the AST alive so that its id is not reused
        return r
