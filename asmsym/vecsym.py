"""Symbolic x86-64 machine for the assembled kernels (scalar + SSE/AVX/AVX-512 integer subset, AES-NI, PCLMUL).
Pointers and lengths are concrete per run; data, keys, register/stack garbage are symbolic.  Monitors:
footprint (every access inside a designated region, right direction), stale (fresh 'stale_*' symbols for
everything the API leaves undefined), residue and frame data are collected by the caller from the final state.
An unknown instruction / operand form raises Unsupported (INCONCLUSIVE, never success)."""
import re
import z3
from bvutil import *
import aesprim

GPR = ["rax", "rcx", "rdx", "rbx", "rsp", "rbp", "rsi", "rdi"] + ["r%d" % i for i in range(8, 16)]
REG = {}
for i, n in enumerate(GPR):
    REG[n] = (n, 64, 0)
for i, n in enumerate(["eax", "ecx", "edx", "ebx", "esp", "ebp", "esi", "edi"] + ["r%dd" % i for i in range(8, 16)]):
    REG[n] = (GPR[i], 32, 0)
for i, n in enumerate(["ax", "cx", "dx", "bx", "sp", "bp", "si", "di"] + ["r%dw" % i for i in range(8, 16)]):
    REG[n] = (GPR[i], 16, 0)
for i, n in enumerate(["al", "cl", "dl", "bl", "spl", "bpl", "sil", "dil"] + ["r%db" % i for i in range(8, 16)]):
    REG[n] = (GPR[i], 8, 0)
for i, n in enumerate(["ah", "ch", "dh", "bh"]):
    REG[n] = (GPR[i], 8, 8)
SIZE_KW = {"BYTE": 8, "WORD": 16, "DWORD": 32, "QWORD": 64, "OWORD": 128, "XMMWORD": 128, "YMMWORD": 256, "ZMMWORD": 512}
_vreg = re.compile(r"^([xyz])mm(\d+)$")
_mem = re.compile(r"^(?:(BYTE|WORD|DWORD|QWORD|OWORD|XMMWORD|YMMWORD|ZMMWORD) PTR )?(?:[a-z]s:)?\[([^\]]+)\](\{1to\d+\})?$")


class Unsupported(Exception):
    pass


class Violation(Exception):
    pass


class Region:
    def __init__(self, name, base, size, readable=True, writable=True, kind="data"):
        self.name, self.base, self.size, self.readable, self.writable, self.kind = name, base, size, readable, writable, kind
        self.bytes = {}      # offset -> (value, bitwidth, byteindex)  or int
        self.read = set()
        self.written = set()

    def contains(self, a, n):
        return self.base <= a and a + n <= self.base + self.size


class Mem:
    def __init__(self):
        self.regions = []
        self.violations = []
        self.nfresh = 0

    def add(self, r):
        self.regions.append(r)
        return r

    def find(self, a, n):
        for r in self.regions:
            if r.contains(a, n):
                return r
        return None

    def fill(self, region, prefix):
        """every byte a fresh symbol (stale_* or in_*), as 64-bit chunks where possible"""
        off = 0
        while off < region.size:
            n = min(8, region.size - off)
            v = z3.BitVec("%s_%s_%x" % (prefix, region.name, off), 8 * n)
            for k in range(n):
                region.bytes[off + k] = (v, 8 * n, k)
            off += n

    def set_bytes(self, region, off, data):
        for k, b in enumerate(data):
            region.bytes[off + k] = b

    def set_value(self, region, off, val, nbits):
        if is_c(val):
            for k in range(nbits // 8):
                region.bytes[off + k] = (val >> (8 * k)) & 0xff
        else:
            for k in range(nbits // 8):
                region.bytes[off + k] = (val, nbits, k)

    def load(self, a, nbits, what=""):
        n = nbits // 8
        r = self.find(a, n)
        if r is None or not r.readable:
            self.violations.append(("read", a, n, what, self.describe(a, n)))
            self.nfresh += 1
            return z3.BitVec("stale_oob_read_%d" % self.nfresh, nbits)
        off = a - r.base
        for k in range(n):
            r.read.add(off + k)
        return self.get(r, off, nbits)

    def get(self, r, off, nbits):
        n = nbits // 8
        ents = [r.bytes.get(off + k) for k in range(n)]
        if any(e is None for e in ents):
            for k in range(n):
                if ents[k] is None:
                    self.nfresh += 1
                    v = z3.BitVec("stale_%s_%x" % (r.name, off + k), 8)
                    r.bytes[off + k] = (v, 8, 0)
                    ents[k] = r.bytes[off + k]
        e0 = ents[0]
        if not is_c(e0) and e0[1] == nbits and all((not is_c(e)) and e[0] is e0[0] and e[2] == k for k, e in enumerate(ents)):
            return e0[0]
        if all(is_c(e) for e in ents):
            v = 0
            for k, e in enumerate(ents):
                v |= e << (8 * k)
            return v
        # group consecutive bytes of the same stored term
        parts = []   # least significant first: (value, width)
        k = 0
        while k < n:
            e = ents[k]
            if is_c(e):
                parts.append((e, 8))
                k += 1
                continue
            j = k
            while j + 1 < n and (not is_c(ents[j + 1])) and ents[j + 1][0] is e[0] and ents[j + 1][2] == ents[j][2] + 1:
                j += 1
            lo = 8 * e[2]
            hi = 8 * ents[j][2] + 7
            parts.append((ext(e[0], hi, lo), hi - lo + 1))
            k = j + 1
        return cat(list(reversed(parts)))

    def store(self, a, val, nbits, what=""):
        n = nbits // 8
        r = self.find(a, n)
        if r is None or not r.writable:
            self.violations.append(("write", a, n, what, self.describe(a, n)))
            return
        off = a - r.base
        for k in range(n):
            r.written.add(off + k)
        self.set_value(r, off, val, nbits)

    def describe(self, a, n):
        best = None
        for r in self.regions:
            d = 0 if r.contains(a, n) else min(abs(a - r.base), abs(a + n - (r.base + r.size)), abs(a - (r.base + r.size)), abs(a + n - r.base))
            if best is None or d < best[0]:
                best = (d, r)
        if best is None:
            return "no region"
        r = best[1]
        return "%s[%d..%d) of %d (%s)" % (r.name, a - r.base, a - r.base + n, r.size, "not readable" if r.contains(a, n) and not r.readable else
                                           "not writable" if r.contains(a, n) else "outside")


class Machine:
    def __init__(self, insns, mem, labels=None):
        self.insns, self.mem, self.labels = insns, mem, labels or {}
        self.g = {r: z3.BitVec("stale_" + r, 64) for r in GPR}
        self.v = [z3.BitVec("stale_zmm%d" % i, 512) for i in range(32)]
        self.k = [z3.BitVec("stale_k%d" % i, 64) for i in range(8)]
        self.flags = {f: z3.Bool("stale_flag_" + f) for f in ("zf", "cf", "sf", "of")}
        self.pc = None
        self.steps = 0
        self.trace = []
        self.cond = []       # path condition (z3 bools) when symbolic branches are resolved by the solver
        self.call_hook = None
        self.queries = 0
        self.coverage = set()
        self.cuts = None       # optional CutTable: proven-equal specification terms replace implementation terms

    # ------------------------------------------------------------ registers
    def rg(self, name):
        r, b, sh = REG[name]
        v = self.g[r]
        if b == 64:
            return v
        return ext(v, sh + b - 1, sh)

    def wg(self, name, val):
        r, b, sh = REG[name]
        if b == 64:
            if self.cuts is not None and not is_c(val) and self.cur is not None and self.cur.mnem in getattr(self, "scalar_canon_mnems", ()):
                val = self.cuts.canon(val)      # scalar cut points (64-bit chained state such as the murmur words)
            self.g[r] = val
        elif b == 32:
            self.g[r] = zext(val, 32, 64) if not is_c(val) else val & mask(32)
        else:
            old = self.g[r]
            self.g[r] = cat([(ext(old, 63, sh + b), 64 - sh - b), (val, b)] + ([(ext(old, sh - 1, 0), sh)] if sh else []))

    def rv(self, idx, bits):
        return ext(self.v[idx], bits - 1, 0)

    def wv(self, idx, val, bits, zero_upper=True):
        if self.cuts is not None and not is_c(val) and (getattr(self, "canon_mnems", None) is None or self.cur.mnem in self.canon_mnems):
            eb = getattr(self.cuts, "elem_bits", 128)
            if bits == eb:
                val = self.cuts.canon(val)
            else:
                val = join([self.cuts.canon(x) for x in lanes(val, bits, eb)], eb)
        if bits == 512:
            self.v[idx] = val
        elif zero_upper:
            self.v[idx] = zext(val, bits, 512) if not is_c(val) else val & mask(bits)
        else:
            self.v[idx] = cat([(ext(self.v[idx], 511, bits), 512 - bits), (val, bits)])

    # ------------------------------------------------------------ operands
    def ea(self, expr):
        """effective address; must be concrete"""
        total = 0
        for m in re.finditer(r"([+-]?)\s*([a-z0-9]+\*[1248]|[a-z][a-z0-9]*|0x[0-9a-f]+|\d+)", expr):
            sign, tok = m.group(1), m.group(2)
            if "*" in tok:
                r, sc = tok.split("*")
                v = bmul(self.rg(r), int(sc), 64)
            elif tok in REG:
                v = self.rg(tok) if REG[tok][1] == 64 else zext(self.rg(tok), REG[tok][1], 64)
            elif tok == "rip":
                v = self.cur.addr + self.cur.size
            else:
                v = int(tok, 0)
            total = bsub(total, v, 64) if sign == "-" else badd(total, v, 64)
        total = simp(total)
        if not is_c(total):
            raise Unsupported("symbolic address [%s] = %s at %x" % (expr, str(total)[:80], self.cur.addr))
        return total

    def rip_target(self, i):
        """address of a rip-relative operand after relocation (synthetic layout provided by the loader)"""
        return None

    def opinfo(self, op):
        op = op.strip()
        km = re.search(r"\{(k[0-7])\}", op)
        zm = "{z}" in op
        core = re.sub(r"\{k[0-7]\}|\{z\}", "", op).strip()
        return core, (int(km.group(1)[1]) if km else None), zm

    def rd(self, op, bits=None):
        """value of operand (register / memory / immediate); bits = expected width for memory/imm"""
        core, _, _ = self.opinfo(op)
        if core in REG:
            return self.rg(core), REG[core][1]
        m = _vreg.match(core)
        if m:
            b = {"x": 128, "y": 256, "z": 512}[m.group(1)]
            return self.rv(int(m.group(2)), b), b
        if re.match(r"^k[0-7]$", core):
            return self.k[int(core[1])], 64
        if re.match(r"^-?(0x[0-9a-f]+|\d+)$", core):
            v = int(core, 0)
            return (v & mask(bits or 64)), bits
        mb = re.match(r"^(DWORD|QWORD) BCST \[([^\]]+)\]$", core)
        if mb:
            eb = SIZE_KW[mb.group(1)]
            e = self.mem.load(self.addr_of(mb.group(2)), eb, self.where())
            n = (bits or 512) // eb
            return join([e] * n, eb), eb * n
        m = _mem.match(core)
        if m:
            b = SIZE_KW[m.group(1)] if m.group(1) else bits
            if b is None:
                raise Unsupported("memory operand without size: %s" % op)
            a = self.addr_of(m.group(2))
            if m.group(3):   # embedded broadcast {1toN}
                n = int(m.group(3)[4:-1])
                e = self.mem.load(a, b, self.where())
                return join([e] * n, b), b * n
            v = self.mem.load(a, b, self.where())
            if self.cuts is not None and b == 128 and not is_c(v):
                v = self.cuts.canon(v)
            return v, b
        raise Unsupported("operand %r at %x" % (op, self.cur.addr))

    def addr_of(self, expr):
        if "rip" in expr:
            t = self.reloc_addr(self.cur)
            if t is not None:
                return t
        return self.ea(expr)

    def reloc_addr(self, i):
        return getattr(i, "abs_target", None)

    def where(self):
        return "%x: %s %s" % (self.cur.addr, self.cur.mnem, self.cur.text)

    def wr(self, op, val, bits, vex=True):
        core, kreg, zm = self.opinfo(op)
        if core in REG:
            self.wg(core, val)
            return
        m = _vreg.match(core)
        if m:
            self.wv(int(m.group(2)), val, {"x": 128, "y": 256, "z": 512}[m.group(1)], zero_upper=vex)
            return
        if re.match(r"^k[0-7]$", core):
            self.k[int(core[1])] = zext(val, bits, 64) if bits < 64 else val
            return
        m = _mem.match(core)
        if m:
            b = SIZE_KW[m.group(1)] if m.group(1) else bits
            if self.cuts is not None and b == 128:
                val = self.cuts.canon(val)
            self.mem.store(self.addr_of(m.group(2)), val, b, self.where())
            return
        raise Unsupported("destination %r at %x" % (op, self.cur.addr))

    # ------------------------------------------------------------ flags
    def fl_logic(self, res, w):
        self.flags = {"zf": beq(res, 0, w), "sf": beq(ext(res, w - 1, w - 1), 1, 1), "cf": False, "of": False}

    def fl_sub(self, a, b, w):
        res = bsub(a, b, w)
        of = beq(ext(band(bxor(a, b, w), bxor(a, res, w), w), w - 1, w - 1), 1, 1)
        self.flags = {"zf": beq(res, 0, w), "sf": beq(ext(res, w - 1, w - 1), 1, 1), "cf": bult(a, b, w), "of": of}
        return res

    def fl_add(self, a, b, w, carry_in=0):
        """carry_in: 0/1 or a z3 Bool"""
        if isinstance(carry_in, bool):
            carry_in = int(carry_in)
        if is_c(carry_in):
            ci_w, ci_w1 = carry_in, carry_in
        else:
            ci_w = z3.If(carry_in, z3.BitVecVal(1, w), z3.BitVecVal(0, w))
            ci_w1 = z3.If(carry_in, z3.BitVecVal(1, w + 1), z3.BitVecVal(0, w + 1))
        res = badd(badd(a, b, w), ci_w, w)
        if is_c(a) and is_c(b) and is_c(carry_in):
            cf = (a & mask(w)) + (b & mask(w)) + carry_in > mask(w)
        else:
            wide = badd(badd(zext(tz(a, w), w, w + 1), zext(tz(b, w), w, w + 1), w + 1), ci_w1, w + 1)
            cf = beq(ext(wide, w, w), 1, 1)
        of = beq(ext(band(bxor(a, res, w), bxor(b, res, w), w), w - 1, w - 1), 1, 1)
        self.flags = {"zf": beq(res, 0, w), "sf": beq(ext(res, w - 1, w - 1), 1, 1), "cf": cf, "of": of}
        return res

    def cc(self, c):
        f = self.flags
        zf, cf, sf, of = f["zf"], f["cf"], f["sf"], f["of"]

        def ne(a, b):
            if isinstance(a, bool) and isinstance(b, bool):
                return a != b
            return z3.Xor(a if not isinstance(a, bool) else z3.BoolVal(a), b if not isinstance(b, bool) else z3.BoolVal(b))
        t = {"e": lambda: zf, "z": lambda: zf, "ne": lambda: bnot_bool(zf), "nz": lambda: bnot_bool(zf), "b": lambda: cf, "c": lambda: cf, "nae": lambda: cf,
             "ae": lambda: bnot_bool(cf), "nb": lambda: bnot_bool(cf), "nc": lambda: bnot_bool(cf), "a": lambda: band_bool(bnot_bool(cf), bnot_bool(zf)),
             "nbe": lambda: band_bool(bnot_bool(cf), bnot_bool(zf)), "be": lambda: bor_bool(cf, zf), "na": lambda: bor_bool(cf, zf), "s": lambda: sf, "ns": lambda: bnot_bool(sf),
             "l": lambda: ne(sf, of), "nge": lambda: ne(sf, of), "ge": lambda: bnot_bool(ne(sf, of)), "nl": lambda: bnot_bool(ne(sf, of)),
             "g": lambda: band_bool(bnot_bool(zf), bnot_bool(ne(sf, of))), "nle": lambda: band_bool(bnot_bool(zf), bnot_bool(ne(sf, of))),
             "le": lambda: bor_bool(zf, ne(sf, of)), "ng": lambda: bor_bool(zf, ne(sf, of)), "o": lambda: of, "no": lambda: bnot_bool(of)}
        if c not in t:
            raise Unsupported("condition " + c)
        r = t[c]()
        if not isinstance(r, bool):
            r = z3.simplify(r)
            if z3.is_true(r):
                return True
            if z3.is_false(r):
                return False
        return r

    def decide(self, c, what):
        """a branch condition must be concrete, or decidable under the path condition; otherwise Unsupported"""
        if isinstance(c, bool):
            return c
        s = z3.Solver()
        s.set("timeout", 20000)
        s.add(*self.cond)
        self.queries += 1
        s.push()
        s.add(c)
        can_t = s.check()
        s.pop()
        s.add(z3.Not(c))
        can_f = s.check()
        if can_t == z3.sat and can_f == z3.unsat:
            return True
        if can_f == z3.sat and can_t == z3.unsat:
            return False
        raise Unsupported("data-dependent branch at %s (%s)" % (self.where(), what))

    # ------------------------------------------------------------ run
    def run(self, entry, max_steps=2000000, stop_at_ret=True):
        self.pc = entry
        depth = 0
        while True:
            i = self.insns.get(self.pc)
            if i is None:
                raise Unsupported("execution reaches undecoded address %x" % self.pc)
            self.cur = i
            self.steps += 1
            self.coverage.add(i.addr)
            if self.steps > max_steps:
                raise Unsupported("step bound exceeded")
            nxt = self.pc + i.size
            mn = i.mnem
            if mn == "ret":
                sp = self.g["rsp"]
                if not is_c(sp):
                    raise Unsupported("ret with symbolic rsp")
                ra = self.mem.load(sp, 64, self.where())
                self.g["rsp"] = sp + 8
                if depth == 0:
                    self.ret_addr = ra
                    return
                depth -= 1
                if not is_c(ra):
                    raise Unsupported("return address is symbolic (stack smashed?) at %x" % i.addr)
                self.pc = ra
                continue
            if mn == "call":
                tgt = getattr(i, "abs_target", None)
                if self.call_hook is not None:
                    handled = self.call_hook(self, i, tgt)
                    if handled:
                        self.pc = nxt
                        continue
                if tgt is None:
                    raise Unsupported("indirect call at %x" % i.addr)
                sp = self.g["rsp"] - 8
                self.mem.store(sp, nxt, 64, self.where())
                self.g["rsp"] = sp
                depth += 1
                self.pc = tgt
                continue
            if mn == "jmp":
                tgt = getattr(i, "abs_target", None)
                if tgt is None or "[" in i.text:
                    raise Unsupported("indirect jmp at %x: %s" % (i.addr, i.text))
                self.pc = tgt
                continue
            if mn.startswith("j") and mn[1:] in ("e", "z", "ne", "nz", "b", "c", "nae", "ae", "nb", "nc", "a", "nbe", "be", "na", "s", "ns", "l", "nge", "ge", "nl", "g", "nle", "le", "ng", "o", "no"):
                c = self.decide(self.cc(mn[1:]), mn)
                self.pc = i.abs_target if c else nxt
                continue
            self.exec1(i)
            self.pc = nxt

    # ------------------------------------------------------------ one instruction
    def exec1(self, i):
        mn, ops = i.mnem, i.ops
        h = getattr(self, "i_" + mn, None)
        if h is not None:
            return h(i, ops)
        h = getattr(self, "x_" + mn, None)
        if h is None and mn.startswith("v"):
            h = getattr(self, "x_" + mn[1:], None)
        if h is not None:
            return self.vec_generic(i, ops, h, vex=mn.startswith("v"))
        raise Unsupported("instruction %s %s at %x" % (mn, i.text, i.addr))

    def vec_generic(self, i, ops, h, vex):
        """dst = h(a, b, width[, imm]) for 2-operand SSE (dst is also first source) and 3-operand VEX/EVEX forms; {k}{z} masking per element size"""
        core, kreg, zm = self.opinfo(ops[0])
        m = _vreg.match(core)
        imm = None
        srcs = ops[1:]
        if srcs and re.match(r"^-?(0x[0-9a-f]+|\d+)$", srcs[-1]):
            imm = int(srcs[-1], 0)
            srcs = srcs[:-1]
        if m:
            w = {"x": 128, "y": 256, "z": 512}[m.group(1)]
        else:
            w = self.rd(srcs[-1])[1]
        if vex:
            vals = [self.rd(s, w)[0] if not _vreg.match(self.opinfo(s)[0]) or True else None for s in srcs]
            vals = [self.rd(s, w) for s in srcs]
        else:
            vals = [self.rd(ops[0], w)] + [self.rd(s, w) for s in srcs]
        a = vals[0][0]
        b = vals[1][0] if len(vals) > 1 else None
        c = vals[2][0] if len(vals) > 2 else None
        res = h(a, b, w, imm, vals, c)
        if kreg is not None:
            esz = getattr(h, "esz", None) or self.esize(i.mnem)
            old = self.rd(core, w)[0]
            kk = self.k[kreg]
            ls, lo = lanes(res, w, esz), lanes(old, w, esz)
            out = []
            for n in range(w // esz):
                bit = ext(kk, n, n)
                keep = 0 if zm else lo[n]
                if is_c(bit):
                    out.append(ls[n] if bit else keep)
                else:
                    out.append(bite(bit == 1, ls[n], keep, esz))
            res = join(out, esz)
        self.wr(ops[0], res, w, vex=vex)

    def esize(self, mn):
        if mn.endswith("8"):
            return 8
        if mn.endswith("16"):
            return 16
        if mn.endswith(("q", "64", "pd")):
            return 64
        return 32

    # ---- scalar
    def i_nop(self, i, ops):
        pass
    i_endbr64 = i_nop
    i_pause = i_nop
    i_prefetcht0 = i_prefetcht1 = i_prefetcht2 = i_prefetchnta = i_prefetchw = i_nop      # hints: no architectural access, never fault
    i_vzeroupper_ = None

    def i_vzeroupper(self, i, ops):
        for n in range(16):
            self.v[n] = zext(self.rv(n, 128), 128, 512) if not is_c(self.rv(n, 128)) else self.rv(n, 128)

    def i_mov(self, i, ops):
        if ops[0] in REG:
            v, b = self.rd(ops[1], REG[ops[0]][1])
            self.wg(ops[0], v)
        else:
            m = _mem.match(ops[0])
            b = SIZE_KW[m.group(1)] if m and m.group(1) else (REG[ops[1]][1] if ops[1] in REG else None)
            v, _ = self.rd(ops[1], b)
            if ops[1] not in REG and m and m.group(1) and b == 64 and is_c(v):
                v = sext(v & mask(32), 32, 64) if v < (1 << 32) else v
            self.wr(ops[0], v, b)
    i_movabs = i_mov

    def i_movzx(self, i, ops):
        v, b = self.rd(ops[1])
        self.wg(ops[0], zext(v, b, REG[ops[0]][1]))

    def i_movsxd(self, i, ops):
        v, b = self.rd(ops[1], 32)
        self.wg(ops[0], sext(v, b, REG[ops[0]][1]))
    i_movsx = i_movsxd

    def i_lea(self, i, ops):
        m = re.match(r"^\[(.+)\]$", ops[1])
        t = getattr(i, "abs_target", None) if "rip" in ops[1] else None
        if t is None:
            total = 0
            for mm in re.finditer(r"([+-]?)\s*([a-z0-9]+\*[1248]|[a-z][a-z0-9]*|0x[0-9a-f]+|\d+)", m.group(1)):
                sign, tok = mm.group(1), mm.group(2)
                if "*" in tok:
                    r, sc = tok.split("*")
                    v = bmul(zext(self.rg(r), REG[r][1], 64), int(sc), 64)
                elif tok in REG:
                    v = zext(self.rg(tok), REG[tok][1], 64)
                else:
                    v = int(tok, 0)
                total = bsub(total, v, 64) if sign == "-" else badd(total, v, 64)
            t = simp(total)
        b = REG[ops[0]][1]
        self.wg(ops[0], ext(t, b - 1, 0) if b < 64 else t)

    def _alu(self, i, ops, fn, flags="logic", write=True):
        b = REG[ops[0]][1] if ops[0] in REG else (SIZE_KW[_mem.match(ops[0]).group(1)] if _mem.match(ops[0]) and _mem.match(ops[0]).group(1) else REG[ops[1]][1])
        a, _ = self.rd(ops[0], b)
        c, cb = self.rd(ops[1], b)
        if ops[1] not in REG and not _mem.match(ops[1]) and is_c(c):
            # sign-extended immediates
            raw = int(ops[1], 0)
            c = raw & mask(b)
        res = fn(a, c, b)
        if write:
            self.wr(ops[0], res, b)
        return res, b

    def i_and(self, i, ops):
        res, b = self._alu(i, ops, band)
        self.fl_logic(res, b)

    def i_or(self, i, ops):
        res, b = self._alu(i, ops, bor)
        self.fl_logic(res, b)

    def i_xor(self, i, ops):
        if ops[0] == ops[1] and ops[0] in REG:
            self.wg(ops[0], 0)
            self.fl_logic(0, REG[ops[0]][1])
            return
        res, b = self._alu(i, ops, bxor)
        self.fl_logic(res, b)

    def i_test(self, i, ops):
        res, b = self._alu(i, ops, band, write=False)
        self.fl_logic(res, b)

    def i_cmp(self, i, ops):
        self._alu(i, ops, lambda a, c, b: self.fl_sub(a, c, b), write=False)

    def i_sub(self, i, ops):
        self._alu(i, ops, lambda a, c, b: self.fl_sub(a, c, b))

    def i_add(self, i, ops):
        self._alu(i, ops, lambda a, c, b: self.fl_add(a, c, b))

    def i_adc(self, i, ops):
        cf = self.flags["cf"]
        self._alu(i, ops, lambda a, c, b: self.fl_add(a, c, b, cf))

    def i_inc(self, i, ops):
        cf = self.flags["cf"]
        b = REG[ops[0]][1] if ops[0] in REG else SIZE_KW[_mem.match(ops[0]).group(1)]
        a, _ = self.rd(ops[0], b)
        res = self.fl_add(a, 1, b)
        self.flags["cf"] = cf
        self.wr(ops[0], res, b)

    def i_dec(self, i, ops):
        cf = self.flags["cf"]
        b = REG[ops[0]][1] if ops[0] in REG else SIZE_KW[_mem.match(ops[0]).group(1)]
        a, _ = self.rd(ops[0], b)
        res = self.fl_sub(a, 1, b)
        self.flags["cf"] = cf
        self.wr(ops[0], res, b)

    def i_neg(self, i, ops):
        b = REG[ops[0]][1]
        a, _ = self.rd(ops[0], b)
        res = self.fl_sub(0, a, b)
        self.wr(ops[0], res, b)

    def i_not(self, i, ops):
        b = REG[ops[0]][1]
        a, _ = self.rd(ops[0], b)
        self.wr(ops[0], bnot(a, b), b)

    def _shift(self, i, ops, kind):
        b = REG[ops[0]][1] if ops[0] in REG else SIZE_KW[_mem.match(ops[0]).group(1)]
        a, _ = self.rd(ops[0], b)
        if len(ops) == 1:
            n = 1
        else:
            n, _ = self.rd(ops[1], 8)
            n = simp(n)
            if not is_c(n):
                raise Unsupported("shift by symbolic count at %x" % i.addr)
        n &= 63 if b == 64 else 31
        if n == 0:
            return
        if kind == "shl":
            res = bshl(a, n, b)
            cf = beq(ext(a, b - n, b - n), 1, 1) if n <= b else False
        elif kind == "shr":
            res = bshr(a, n, b)
            cf = beq(ext(a, n - 1, n - 1), 1, 1)
        elif kind == "sar":
            res = bsar(a, n, b)
            cf = beq(ext(a, min(n - 1, b - 1), min(n - 1, b - 1)), 1, 1)
        elif kind == "rol":
            res = brol(a, n, b)
            cf = beq(ext(res, 0, 0), 1, 1)
        elif kind == "ror":
            res = bror(a, n, b)
            cf = beq(ext(res, b - 1, b - 1), 1, 1)
        self.wr(ops[0], res, b)
        if kind in ("rol", "ror"):
            self.flags["cf"] = cf
        else:
            self.flags = {"zf": beq(res, 0, b), "sf": beq(ext(res, b - 1, b - 1), 1, 1), "cf": cf, "of": z3.Bool("stale_flag_of_shift")}

    def i_shl(self, i, ops):
        self._shift(i, ops, "shl")
    i_sal = i_shl

    def i_shr(self, i, ops):
        self._shift(i, ops, "shr")

    def i_sar(self, i, ops):
        self._shift(i, ops, "sar")

    def i_rol(self, i, ops):
        self._shift(i, ops, "rol")

    def i_ror(self, i, ops):
        self._shift(i, ops, "ror")

    def i_imul(self, i, ops):
        if len(ops) == 1:
            raise Unsupported("one-operand imul")
        b = REG[ops[0]][1]
        if len(ops) == 2:
            a, _ = self.rd(ops[0], b)
            c, _ = self.rd(ops[1], b)
        else:
            a, _ = self.rd(ops[1], b)
            c = int(ops[2], 0) & mask(b)
        self.wg(ops[0], bmul(a, c, b))
        for f in ("zf", "sf", "cf", "of"):
            self.flags[f] = z3.Bool("stale_flag_%s_imul" % f)

    def i_push(self, i, ops):
        v, b = self.rd(ops[0], 64)
        sp = self.g["rsp"] - 8
        self.mem.store(sp, v, 64, self.where())
        self.g["rsp"] = sp

    def i_pop(self, i, ops):
        sp = self.g["rsp"]
        v = self.mem.load(sp, 64, self.where())
        self.g["rsp"] = sp + 8
        self.wg(ops[0], v)

    def i_xchg(self, i, ops):
        a, b = self.rd(ops[0])
        c, _ = self.rd(ops[1], b)
        self.wr(ops[0], c, b)
        self.wr(ops[1], a, b)

    def i_bt(self, i, ops):
        a, b = self.rd(ops[0])
        n, _ = self.rd(ops[1], 8)
        if not is_c(n):
            raise Unsupported("bt with symbolic index")
        self.flags["cf"] = beq(ext(a, n % b, n % b), 1, 1)

    def i_cmc(self, i, ops):
        self.flags["cf"] = bnot_bool(self.flags["cf"])

    def i_blsmsk(self, i, ops):
        b = REG[ops[0]][1]
        a, _ = self.rd(ops[1], b)
        res = bxor(a, bsub(a, 1, b), b)
        self.wg(ops[0], res)
        self.flags = {"zf": False, "sf": beq(ext(res, b - 1, b - 1), 1, 1), "cf": beq(a, 0, b), "of": False}

    def __getattr__(self, name):
        if name.startswith("i_cmov"):
            c = name[6:]
            def f(i, ops, c=c):
                cond = self.cc(c)
                b = REG[ops[0]][1]
                a, _ = self.rd(ops[0], b)
                s, _ = self.rd(ops[1], b)
                self.wg(ops[0], bite(cond, s, a, b))
            return f
        if name.startswith("i_set"):
            c = name[5:]
            def f(i, ops, c=c):
                cond = self.cc(c)
                self.wr(ops[0], bite(cond, 1, 0, 8), 8)
            return f
        raise AttributeError(name)

    # ---- vector moves
    def _vmov(self, i, ops, vex):
        core0 = self.opinfo(ops[0])[0]
        m0, m1 = _vreg.match(core0), _vreg.match(self.opinfo(ops[1])[0])
        w = {"x": 128, "y": 256, "z": 512}[(m0 or m1).group(1)]
        h = lambda a, b, w_, imm, vals, c: a
        self.vec_generic_mov(i, ops, w, vex)

    def vec_generic_mov(self, i, ops, w, vex):
        core, kreg, zm = self.opinfo(ops[0])
        src, _ = self.rd(ops[1], w)
        if kreg is not None:
            esz = self.esize(i.mnem)
            kk = self.k[kreg]
            n = w // esz
            if _mem.match(core):
                # masked store: only selected elements are written (and only they are accessed)
                a = self.addr_of(_mem.match(core).group(2))
                ls = lanes(src, w, esz)
                for e in range(n):
                    bit = simp(ext(kk, e, e))
                    if not is_c(bit):
                        raise Unsupported("masked store with symbolic mask at %x" % i.addr)
                    if bit:
                        self.mem.store(a + e * esz // 8, ls[e], esz, self.where())
                return
            old = self.rd(core, w)[0]
            ls, lo = lanes(src, w, esz), lanes(old, w, esz)
            out = []
            for e in range(n):
                bit = simp(ext(kk, e, e))
                keep = 0 if zm else lo[e]
                out.append((ls[e] if bit else keep) if is_c(bit) else bite(bit == 1, ls[e], keep, esz))
            src = join(out, esz)
        self.wr(ops[0], src, w, vex=vex)

    def _masked_load_src(self, i, ops, w):
        """for masked loads only the selected elements are accessed"""
        core, kreg, zm = self.opinfo(ops[0])
        m = _mem.match(self.opinfo(ops[1])[0])
        if kreg is None or not m:
            return None
        esz = self.esize(i.mnem)
        kk = self.k[kreg]
        a = self.addr_of(m.group(2))
        old = self.rd(core, w)[0]
        lo = lanes(old, w, esz)
        out = []
        for e in range(w // esz):
            bit = simp(ext(kk, e, e))
            if not is_c(bit):
                raise Unsupported("masked load with symbolic mask at %x" % i.addr)
            out.append(self.mem.load(a + e * esz // 8, esz, self.where()) if bit else (0 if zm else lo[e]))
        return join(out, esz)

    def mov_family(self, i, ops, vex):
        m0, m1 = _vreg.match(self.opinfo(ops[0])[0]), _vreg.match(self.opinfo(ops[1])[0])
        w = {"x": 128, "y": 256, "z": 512}[(m0 or m1).group(1)]
        ml = self._masked_load_src(i, ops, w)
        if ml is not None:
            self.wr(self.opinfo(ops[0])[0], ml, w, vex=vex)
            return
        self.vec_generic_mov(i, ops, w, vex)

    def i_movdqu(self, i, ops):
        self.mov_family(i, ops, False)
    i_movdqa = i_movups = i_movaps = i_movupd = i_movapd = i_lddqu = i_movntdq = i_movntdqa = i_movdqu

    def i_vmovdqu(self, i, ops):
        self.mov_family(i, ops, True)
    i_vmovdqa = i_vmovups = i_vmovaps = i_vmovupd = i_vmovapd = i_vmovdqu8 = i_vmovdqu16 = i_vmovdqu32 = i_vmovdqu64 = i_vmovdqa32 = i_vmovdqa64 = i_vmovntdq = i_vmovntdqa = i_vlddqu = i_vmovdqu

    def _movq(self, i, ops, vex, bits):
        d, s = ops
        dm, sm = _vreg.match(d), _vreg.match(s)
        if dm:   # to xmm: zero-extend to 128 (and beyond)
            v, _ = self.rd(s, bits) if not sm else (self.rv(int(sm.group(2)), bits), bits)
            if s in REG:
                v = self.rg(s)
                v = v if REG[s][1] == bits else ext(v, bits - 1, 0)
            self.wv(int(dm.group(2)), zext(v, bits, 128) if not is_c(v) else v & mask(bits), 128, zero_upper=True)
        else:
            v = self.rv(int(sm.group(2)), bits)
            self.wr(d, v, bits)

    def i_movq(self, i, ops):
        self._movq(i, ops, False, 64)

    def i_vmovq(self, i, ops):
        self._movq(i, ops, True, 64)

    def i_movd(self, i, ops):
        self._movq(i, ops, False, 32)

    def i_vmovd(self, i, ops):
        self._movq(i, ops, True, 32)

    # ---- vector ALU (element-wise helpers)
    @staticmethod
    def _ew(fn, esz):
        def h(a, b, w, imm, vals, c):
            return join([fn(x, y, esz) for x, y in zip(lanes(a, w, esz), lanes(b, w, esz))], esz)
        h.esz = esz
        return h

    def _lw(self, fn, a, b, w):
        """whole-register logic: element-wise when the run works on 32/64-bit elements (keeps terms as concats of elements)"""
        e = getattr(self, "elem", None)
        if e and w > e and not (is_c(a) and is_c(b)):
            return join([fn(x, y, e) for x, y in zip(lanes(a, w, e), lanes(b, w, e))], e)
        return fn(a, b, w)

    def x_pxor(self, a, b, w, imm, vals, c):
        return self._lw(bxor, a, b, w)
    x_xorps = x_xorpd = x_pxord = x_pxorq = x_pxor

    def x_pand(self, a, b, w, imm, vals, c):
        return self._lw(band, a, b, w)
    x_andps = x_andpd = x_pandd = x_pandq = x_pand

    def x_por(self, a, b, w, imm, vals, c):
        return self._lw(bor, a, b, w)
    x_orps = x_orpd = x_pord = x_porq = x_por

    def x_pandn(self, a, b, w, imm, vals, c):
        return self._lw(lambda x, y, n: band(bnot(x, n), y, n), a, b, w)
    x_andnps = x_pandnd = x_pandnq = x_pandn

    def x_paddd(self, a, b, w, imm, vals, c):
        return join([badd(x, y, 32) for x, y in zip(lanes(a, w, 32), lanes(b, w, 32))], 32)

    def x_paddq(self, a, b, w, imm, vals, c):
        return join([badd(x, y, 64) for x, y in zip(lanes(a, w, 64), lanes(b, w, 64))], 64)

    def x_psubd(self, a, b, w, imm, vals, c):
        return join([bsub(x, y, 32) for x, y in zip(lanes(a, w, 32), lanes(b, w, 32))], 32)

    def x_psubq(self, a, b, w, imm, vals, c):
        return join([bsub(x, y, 64) for x, y in zip(lanes(a, w, 64), lanes(b, w, 64))], 64)

    def x_pcmpeqd(self, a, b, w, imm, vals, c):
        return join([bite(beq(x, y, 32), mask(32), 0, 32) for x, y in zip(lanes(a, w, 32), lanes(b, w, 32))], 32)

    def x_pminud(self, a, b, w, imm, vals, c):
        return join([bite(bult(x, y, 32), x, y, 32) for x, y in zip(lanes(a, w, 32), lanes(b, w, 32))], 32)

    def x_pminuq(self, a, b, w, imm, vals, c):
        return join([bite(bult(x, y, 64), x, y, 64) for x, y in zip(lanes(a, w, 64), lanes(b, w, 64))], 64)

    def _shift_imm(self, a, b, w, imm, esz, fn):
        # 2-operand SSE: (dst, imm) -> a is dst ; VEX: (src, imm) -> a is src.  count may be in an xmm register (b)
        n = imm
        if n is None:
            n = simp(ext(b, 63, 0))
            if not is_c(n):
                raise Unsupported("vector shift by symbolic count")
        return join([fn(x, n, esz) for x in lanes(a, w, esz)], esz)

    def x_pslld(self, a, b, w, imm, vals, c):
        return self._shift_imm(a, b, w, imm, 32, bshl)

    def x_psrld(self, a, b, w, imm, vals, c):
        return self._shift_imm(a, b, w, imm, 32, bshr)

    def x_psrad(self, a, b, w, imm, vals, c):
        return self._shift_imm(a, b, w, imm, 32, bsar)

    def x_psllq(self, a, b, w, imm, vals, c):
        return self._shift_imm(a, b, w, imm, 64, bshl)

    def x_psrlq(self, a, b, w, imm, vals, c):
        return self._shift_imm(a, b, w, imm, 64, bshr)

    def x_psraq(self, a, b, w, imm, vals, c):
        return self._shift_imm(a, b, w, imm, 64, bsar)

    def x_pslldq(self, a, b, w, imm, vals, c):
        n = min(imm, 16)
        return join([bshl(x, 8 * n, 128) for x in lanes(a, w, 128)], 128)

    def x_psrldq(self, a, b, w, imm, vals, c):
        n = min(imm, 16)
        return join([bshr(x, 8 * n, 128) for x in lanes(a, w, 128)], 128)

    def x_prold(self, a, b, w, imm, vals, c):
        return join([brol(x, imm % 32, 32) for x in lanes(a, w, 32)], 32)

    def x_prolq(self, a, b, w, imm, vals, c):
        return join([brol(x, imm % 64, 64) for x in lanes(a, w, 64)], 64)

    def x_prord(self, a, b, w, imm, vals, c):
        return join([bror(x, imm % 32, 32) for x in lanes(a, w, 32)], 32)

    def x_prorq(self, a, b, w, imm, vals, c):
        return join([bror(x, imm % 64, 64) for x in lanes(a, w, 64)], 64)

    def x_psllvq(self, a, b, w, imm, vals, c):
        out = []
        for x, n in zip(lanes(a, w, 64), lanes(b, w, 64)):
            n = simp(n)
            if not is_c(n):
                raise Unsupported("variable shift by symbolic count")
            out.append(bshl(x, n, 64) if n < 64 else 0)
        return join(out, 64)

    def x_psrlvq(self, a, b, w, imm, vals, c):
        out = []
        for x, n in zip(lanes(a, w, 64), lanes(b, w, 64)):
            n = simp(n)
            if not is_c(n):
                raise Unsupported("variable shift by symbolic count")
            out.append(bshr(x, n, 64) if n < 64 else 0)
        return join(out, 64)

    def x_pshufd(self, a, b, w, imm, vals, c):
        # SSE form: pshufd dst, src, imm -> vals = [dst, src]; VEX: vals=[src]
        src = vals[-1][0]
        out = []
        for l128 in lanes(src, w, 128):
            d = lanes(l128, 128, 32)
            out.append(join([d[(imm >> (2 * k)) & 3] for k in range(4)], 32))
        return join(out, 128)

    def x_shufps(self, a, b, w, imm, vals, c):
        out = []
        for la, lb in zip(lanes(a, w, 128), lanes(b, w, 128)):
            da, db = lanes(la, 128, 32), lanes(lb, 128, 32)
            out.append(join([da[imm & 3], da[(imm >> 2) & 3], db[(imm >> 4) & 3], db[(imm >> 6) & 3]], 32))
        return join(out, 128)

    def x_shufpd(self, a, b, w, imm, vals, c):
        out = []
        for n, (la, lb) in enumerate(zip(lanes(a, w, 128), lanes(b, w, 128))):
            da, db = lanes(la, 128, 64), lanes(lb, 128, 64)
            out.append(join([da[(imm >> (2 * n)) & 1], db[(imm >> (2 * n + 1)) & 1]], 64))
        return join(out, 128)

    def x_pshufb(self, a, b, w, imm, vals, c):
        out = []
        for la, lb in zip(lanes(a, w, 128), lanes(b, w, 128)):
            ctl = simp(lb)
            if not is_c(ctl):
                # symbolic control: byte k = (ctl_k & 0x80) ? 0 : src byte (ctl_k & 15), as a variable shift of the source lane
                import z3 as _z3
                srcv = tz(la, 128)
                r = []
                for k in range(16):
                    cb = ext(ctl, 8 * k + 7, 8 * k)
                    sh = _z3.ZeroExt(120, tz(cb, 8) & 0x0f) * 8
                    sel = _z3.Extract(7, 0, _z3.LShR(srcv, sh))
                    r.append(_z3.If(_z3.Extract(7, 7, tz(cb, 8)) == 1, _z3.BitVecVal(0, 8), sel))
                out.append(join(r, 8))
                continue
            ab = lanes(la, 128, 8)
            r = []
            for k in range(16):
                cb = (ctl >> (8 * k)) & 0xff
                r.append(0 if cb & 0x80 else ab[cb & 15])
            out.append(join(r, 8))
        return join(out, 128)

    def x_palignr(self, a, b, w, imm, vals, c):
        out = []
        for la, lb in zip(lanes(a, w, 128), lanes(b, w, 128)):
            t = cat([(la, 128), (lb, 128)])
            out.append(ext(bshr(t, 8 * imm, 256), 127, 0) if imm < 32 else 0)
        return join(out, 128)

    def x_pblendvb(self, a, b, w, imm, vals, c):
        # SSE: implicit xmm0 mask; VEX: 4th operand
        msk = c if c is not None else self.rv(0, 128)
        ma = lanes(msk, w, 8)
        out = []
        for x, y, m_ in zip(lanes(a, w, 8), lanes(b, w, 8), ma):
            bit = simp(ext(m_, 7, 7))
            out.append((y if bit else x) if is_c(bit) else bite(bit == 1, y, x, 8))
        return join(out, 8)

    def x_punpcklqdq(self, a, b, w, imm, vals, c):
        return join([cat([(ext(lb, 63, 0), 64), (ext(la, 63, 0), 64)]) for la, lb in zip(lanes(a, w, 128), lanes(b, w, 128))], 128)

    def x_punpckhqdq(self, a, b, w, imm, vals, c):
        return join([cat([(ext(lb, 127, 64), 64), (ext(la, 127, 64), 64)]) for la, lb in zip(lanes(a, w, 128), lanes(b, w, 128))], 128)

    def x_pternlogq(self, a, b, w, imm, vals, c):
        # vpternlog dst, src2, src3, imm : dst is also the first source (vals = [src2, src3]) -> need dst
        raise Unsupported("vpternlog handled separately")

    def i_vpternlogq(self, i, ops):
        core, kreg, zm = self.opinfo(ops[0])
        if kreg is not None:
            raise Unsupported("masked vpternlog")
        w = {"x": 128, "y": 256, "z": 512}[_vreg.match(core).group(1)]
        a = self.rd(core, w)[0]
        b = self.rd(ops[1], w)[0]
        c = self.rd(ops[2], w)[0]
        imm = int(ops[3], 0)

        def tern(a, b, c, w):
            if imm == 0x96:
                return bxor(bxor(a, b, w), c, w)
            if imm == 0xca:      # a ? b : c
                return bor(band(a, b, w), band(bnot(a, w), c, w), w)
            if imm == 0xe8:      # majority
                return bor(bor(band(a, b, w), band(a, c, w), w), band(b, c, w), w)
            res = 0
            for idx in range(8):
                if (imm >> idx) & 1:
                    ta = a if idx & 4 else bnot(a, w)
                    tb = b if idx & 2 else bnot(b, w)
                    tc = c if idx & 1 else bnot(c, w)
                    res = bor(res, band(band(ta, tb, w), tc, w), w)
            return res
        e = getattr(self, "elem", None)
        if e and w > e:
            res = join([tern(x, y, z_, e) for x, y, z_ in zip(lanes(a, w, e), lanes(b, w, e), lanes(c, w, e))], e)
        else:
            res = tern(a, b, c, w)
        self.wr(core, res, w)
    i_vpternlogd = i_vpternlogq

    # ---- AES / CLMUL
    def _aes(self, kind):
        def h(a, b, w, imm, vals, c):
            kl = lanes(b, w, 128)
            if self.cuts is not None:
                kl = [self.cuts.canon(y) for y in kl]
            return join([aesprim.aes_round(kind, x, y) for x, y in zip(lanes(a, w, 128), kl)], 128)
        return h

    def x_aesenc(self, a, b, w, imm, vals, c):
        return self._aes("enc")(a, b, w, imm, vals, c)

    def x_aesenclast(self, a, b, w, imm, vals, c):
        return self._aes("enclast")(a, b, w, imm, vals, c)

    def x_aesdec(self, a, b, w, imm, vals, c):
        return self._aes("dec")(a, b, w, imm, vals, c)

    def x_aesdeclast(self, a, b, w, imm, vals, c):
        return self._aes("declast")(a, b, w, imm, vals, c)

    def x_aesimc(self, a, b, w, imm, vals, c):
        return aesprim.aes_fn("IMC", vals[-1][0])

    def x_aeskeygenassist(self, a, b, w, imm, vals, c):
        return aesprim.keygenassist(vals[-1][0], imm & 0xff)

    def _clmul(self, a, b, w, sel):
        out = []
        for la, lb in zip(lanes(a, w, 128), lanes(b, w, 128)):
            x = ext(la, 127, 64) if sel & 1 else ext(la, 63, 0)
            y = ext(lb, 127, 64) if sel & 0x10 else ext(lb, 63, 0)
            out.append(aesprim.clmul64(x, y))
        return join(out, 128)

    def x_pclmulqdq(self, a, b, w, imm, vals, c):
        return self._clmul(a, b, w, imm)

    def x_pclmullqlqdq(self, a, b, w, imm, vals, c):
        return self._clmul(a, b, w, 0x00)

    def x_pclmulhqlqdq(self, a, b, w, imm, vals, c):
        return self._clmul(a, b, w, 0x01)

    def x_pclmullqhqdq(self, a, b, w, imm, vals, c):
        return self._clmul(a, b, w, 0x10)

    def x_pclmulhqhqdq(self, a, b, w, imm, vals, c):
        return self._clmul(a, b, w, 0x11)

    # ---- inserts / extracts / broadcasts
    def i_pinsrq(self, i, ops, esz=64, vex=False):
        dst = ops[0]
        src1 = ops[1] if vex else ops[0]
        val_op = ops[2] if vex else ops[1]
        imm = int(ops[-1], 0)
        base = self.rd(src1, 128)[0]
        v, b = self.rd(val_op, esz)
        v = ext(v, esz - 1, 0) if b and b > esz else v
        ls = lanes(base, 128, esz)
        ls[imm % (128 // esz)] = v
        self.wr(dst, join(ls, esz), 128, vex=vex)

    def i_pinsrd(self, i, ops):
        self.i_pinsrq(i, ops, 32, False)

    def i_pinsrb(self, i, ops):
        self.i_pinsrq(i, ops, 8, False)

    def i_pinsrw(self, i, ops):
        self.i_pinsrq(i, ops, 16, False)

    def i_vpinsrq(self, i, ops):
        self.i_pinsrq(i, ops, 64, True)

    def i_vpinsrd(self, i, ops):
        self.i_pinsrq(i, ops, 32, True)

    def i_vpinsrb(self, i, ops):
        self.i_pinsrq(i, ops, 8, True)

    def _pextr(self, i, ops, esz):
        imm = int(ops[2], 0)
        src = self.rd(ops[1], 128)[0]
        v = lanes(src, 128, esz)[imm % (128 // esz)]
        if ops[0] in REG:
            self.wg(ops[0] if REG[ops[0]][1] >= 32 else ops[0], zext(v, esz, REG[ops[0]][1]) if REG[ops[0]][1] > esz else v)
        else:
            self.wr(ops[0], v, esz)

    def i_pextrq(self, i, ops):
        self._pextr(i, ops, 64)

    def i_pextrd(self, i, ops):
        self._pextr(i, ops, 32)

    def i_pextrb(self, i, ops):
        self._pextr(i, ops, 8)
    i_vpextrq = i_pextrq
    i_vpextrd = i_pextrd
    i_vpextrb = i_pextrb

    def i_vextracti128(self, i, ops, lw=128):
        imm = int(ops[2], 0)
        src, w = self.rd(ops[1])
        self.wr(ops[0], lanes(src, w, lw)[imm % (w // lw)], lw)
    i_vextractf128 = i_vextracti128
    i_vextracti32x4 = i_vextracti128
    i_vextracti64x2 = i_vextracti128

    def i_vextracti64x4(self, i, ops):
        self.i_vextracti128(i, ops, 256)
    i_vextracti32x8 = i_vextracti64x4

    def i_vinserti128(self, i, ops, lw=128):
        imm = int(ops[3], 0)
        core = self.opinfo(ops[0])[0]
        w = {"x": 128, "y": 256, "z": 512}[_vreg.match(core).group(1)]
        a = self.rd(ops[1], w)[0]
        b = self.rd(ops[2], lw)[0]
        ls = lanes(a, w, lw)
        ls[imm % (w // lw)] = b
        self.wr(core, join(ls, lw), w)
    i_vinsertf128 = i_vinserti128
    i_vinserti32x4 = i_vinserti128
    i_vinserti64x2 = i_vinserti128

    def i_vinserti64x4(self, i, ops):
        self.i_vinserti128(i, ops, 256)

    def _bcast(self, i, ops, ew):
        core, kreg, zm = self.opinfo(ops[0])
        w = {"x": 128, "y": 256, "z": 512}[_vreg.match(core).group(1)]
        sm = _vreg.match(ops[1])
        if sm:
            e = self.rv(int(sm.group(2)), ew)
        elif ops[1] in REG:
            e = self.rg(ops[1])
        else:
            e = self.rd(ops[1], ew)[0]
        val = join([e] * (w // ew), ew)
        if kreg is not None:
            raise Unsupported("masked broadcast")
        self.wr(core, val, w)

    def i_vpbroadcastq(self, i, ops):
        self._bcast(i, ops, 64)

    def i_vpbroadcastd(self, i, ops):
        self._bcast(i, ops, 32)

    def i_vpbroadcastb(self, i, ops):
        self._bcast(i, ops, 8)

    def i_vbroadcasti32x4(self, i, ops):
        self._bcast(i, ops, 128)
    i_vbroadcastf64x2 = i_vbroadcasti64x2 = i_vbroadcasti128 = i_vbroadcastf128 = i_vbroadcastf32x4 = i_vbroadcasti32x4

    def i_valignq(self, i, ops):
        core, kreg, zm = self.opinfo(ops[0])
        w = {"x": 128, "y": 256, "z": 512}[_vreg.match(core).group(1)]
        a = self.rd(ops[1], w)[0]
        b = self.rd(ops[2], w)[0]
        imm = int(ops[3], 0)
        t = lanes(b, w, 64) + lanes(a, w, 64)
        n = w // 64
        res = join([t[(k + imm % n)] for k in range(n)], 64)
        if kreg is not None:
            raise Unsupported("masked valignq")
        self.wr(core, res, w)

    def i_vshufi64x2(self, i, ops):
        core = self.opinfo(ops[0])[0]
        w = {"y": 256, "z": 512}[_vreg.match(core).group(1)]
        a = lanes(self.rd(ops[1], w)[0], w, 128)
        b = lanes(self.rd(ops[2], w)[0], w, 128)
        imm = int(ops[3], 0)
        if w == 512:
            res = [a[imm & 3], a[(imm >> 2) & 3], b[(imm >> 4) & 3], b[(imm >> 6) & 3]]
        else:
            res = [a[imm & 1], b[(imm >> 1) & 1]]
        self.wr(core, join(res, 128), w)
    i_vshuff64x2 = i_vshufi32x4 = i_vshufi64x2

    def i_vperm2i128(self, i, ops):
        core = self.opinfo(ops[0])[0]
        a = lanes(self.rd(ops[1], 256)[0], 256, 128)
        b = lanes(self.rd(ops[2], 256)[0], 256, 128)
        imm = int(ops[3], 0)
        def sel(c):
            if c & 8:
                return 0
            return (a + b)[c & 3]
        self.wr(core, join([sel(imm & 0xf), sel((imm >> 4) & 0xf)], 128), 256)
    i_vperm2f128 = i_vperm2i128

    def _vperm2(self, i, ops, ew, idx_is_dst):
        """vpermi2*/vpermt2*: two-table permute; indices from dst (i2) or from the first source (t2)"""
        core, kreg, zm = self.opinfo(ops[0])
        if kreg is not None:
            raise Unsupported("masked two-table permute")
        w = {"x": 128, "y": 256, "z": 512}[_vreg.match(core).group(1)]
        d = self.rd(core, w)[0]
        s1 = self.rd(ops[1], w)[0]
        s2 = self.rd(ops[2], w)[0]
        if idx_is_dst:
            idxv, ta, tb = d, s1, s2
        else:
            idxv, ta, tb = s1, d, s2
        n = w // ew
        tbl = lanes(ta, w, ew) + lanes(tb, w, ew)
        out = []
        for e in lanes(idxv, w, ew):
            e = simp(e)
            if not is_c(e):
                raise Unsupported("two-table permute with symbolic indices")
            out.append(tbl[e & (2 * n - 1)])
        self.wr(core, join(out, ew), w)

    def i_vpermi2q(self, i, ops):
        self._vperm2(i, ops, 64, True)

    def i_vpermt2q(self, i, ops):
        self._vperm2(i, ops, 64, False)

    def i_vpermi2d(self, i, ops):
        self._vperm2(i, ops, 32, True)

    def i_vpermt2d(self, i, ops):
        self._vperm2(i, ops, 32, False)

    def i_vpshrdq(self, i, ops):
        core = self.opinfo(ops[0])[0]
        w = {"x": 128, "y": 256, "z": 512}[_vreg.match(core).group(1)]
        a = lanes(self.rd(ops[1], w)[0], w, 64)
        b = lanes(self.rd(ops[2], w)[0], w, 64)
        imm = int(ops[3], 0) & 63
        res = [ext(bshr(cat([(y, 64), (x, 64)]), imm, 128), 63, 0) for x, y in zip(a, b)]
        self.wr(core, join(res, 64), w)

    # ---- mask registers
    def i_kmovq(self, i, ops, bits=64):
        d, s = ops
        if re.match(r"^k[0-7]$", d):
            if s in REG:
                v = self.rg(s)
                v = zext(v, REG[s][1], 64) if REG[s][1] < 64 else v
            elif re.match(r"^k[0-7]$", s):
                v = self.k[int(s[1])]
            else:
                v = self.rd(s, bits)[0]
            v = ext(v, bits - 1, 0)
            self.k[int(d[1])] = zext(v, bits, 64) if bits < 64 else v
        else:
            v = ext(self.k[int(s[1])], bits - 1, 0)
            if d in REG:
                self.wg(d, zext(v, bits, REG[d][1]) if REG[d][1] > bits else v)
            else:
                self.wr(d, v, bits)

    def i_kmovd(self, i, ops):
        self.i_kmovq(i, ops, 32)

    def i_kmovw(self, i, ops):
        self.i_kmovq(i, ops, 16)

    def i_kmovb(self, i, ops):
        self.i_kmovq(i, ops, 8)
