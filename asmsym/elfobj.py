"""Minimal ELF64 relocatable-object reader + objdump-based instruction stream.
Everything is regenerated from objects freshly assembled from /repo's working tree."""
import struct, subprocess, re, os


class Section:
    def __init__(self, idx, name, typ, flags, addr, off, size, link, info, align, entsize, data):
        self.idx, self.name, self.type, self.flags, self.off, self.size = idx, name, typ, flags, off, size
        self.link, self.info, self.align, self.entsize, self.data = link, info, align, entsize, data
        self.base = None   # synthetic load address


class Symbol:
    def __init__(self, name, info, other, shndx, value, size):
        self.name, self.info, self.other, self.shndx, self.value, self.size = name, info, other, shndx, value, size
        self.bind, self.type = info >> 4, info & 0xf


class Reloc:
    def __init__(self, off, typ, symidx, addend):
        self.off, self.type, self.symidx, self.addend = off, typ, symidx, addend


class Insn:
    __slots__ = ("addr", "raw", "mnem", "ops", "text", "relocs", "size", "prefixes", "sec", "abs_target", "unresolved")

    def __repr__(self):
        return "%x: %s %s" % (self.addr, self.mnem, self.text)


R_X86_64_64, R_X86_64_PC32, R_X86_64_PLT32, R_X86_64_32, R_X86_64_32S = 1, 2, 4, 10, 11


class Obj:
    def __init__(self, path):
        self.path = path
        b = open(path, "rb").read()
        assert b[:4] == b"\x7fELF" and b[4] == 2, "not ELF64"
        (shoff,) = struct.unpack_from("<Q", b, 0x28)
        shentsize, shnum, shstrndx = struct.unpack_from("<HHH", b, 0x3A)
        raw = []
        for i in range(shnum):
            raw.append(struct.unpack_from("<IIQQQQIIQQ", b, shoff + i * shentsize))
        shstr = raw[shstrndx]
        strtab = b[shstr[4]:shstr[4] + shstr[5]]

        def cstr(tab, o):
            e = tab.index(b"\0", o)
            return tab[o:e].decode()
        self.sections = []
        for i, s in enumerate(raw):
            name, typ, flags, addr, off, size, link, info, align, entsize = s
            data = b[off:off + size] if typ != 8 else b"\0" * size
            self.sections.append(Section(i, cstr(strtab, name), typ, flags, addr, off, size, link, info, align, entsize, data))
        self.symbols = []
        for s in self.sections:
            if s.type == 2:
                st = self.sections[s.link].data
                for k in range(s.size // 24):
                    nm, info, other, shndx, value, size = struct.unpack_from("<IBBHQQ", s.data, k * 24)
                    self.symbols.append(Symbol(cstr(st, nm), info, other, shndx, value, size))
        self.relocs = {}   # section idx -> [Reloc]
        for s in self.sections:
            if s.type == 4:
                lst = []
                for k in range(s.size // 24):
                    off, info, add = struct.unpack_from("<QQq", s.data, k * 24)
                    lst.append(Reloc(off, info & 0xffffffff, info >> 32, add))
                self.relocs[s.info] = lst
        self.secbyname = {s.name: s for s in self.sections}

    def sym(self, name):
        for s in self.symbols:
            if s.name == name and s.shndx != 0:
                return s
        return None

    def defined_functions(self):
        """(name, section idx, value) of every symbol defined in an executable section."""
        out = []
        for s in self.symbols:
            if s.shndx and s.shndx < 0xff00 and s.name and (self.sections[s.shndx].flags & 4) and s.type in (0, 2):
                out.append(s)
        return out

    def undefined(self):
        return [s.name for s in self.symbols if s.shndx == 0 and s.name]

    def sym_at(self, shndx, value):
        best = None
        for s in self.symbols:
            if s.shndx == shndx and s.value == value and s.name and s.type != 3:
                if best is None or s.bind > best.bind:
                    best = s
        return best


_line = re.compile(r"^\s*([0-9a-f]+):\t([0-9a-f ]+?)\s*\t(.*)$")
_reloc = re.compile(r"^\s+([0-9a-f]+):\s+(R_X86_64_\w+)\s+(.+)$")
_label = re.compile(r"^([0-9a-f]+) <(.+)>:$")
PREFIXES = {"lock", "rep", "repz", "repnz", "repe", "repne", "notrack", "bnd", "data16", "addr32", "cs", "ds", "es", "ss", "fs", "gs", "rex.W", "rex"}


def disassemble(path, section=".text"):
    """-> ({addr: Insn}, {label: addr}) for one executable section, from objdump -dr."""
    p = subprocess.run(["objdump", "-dr", "-w", "-M", "intel", "-j", section, path], capture_output=True, text=True)
    insns, labels = {}, {}
    last = None
    for ln in p.stdout.splitlines():
        m = _label.match(ln)
        if m:
            labels.setdefault(m.group(2), int(m.group(1), 16))
            continue
        f = ln.split("\t")
        if len(f) >= 3 and re.match(r"^\s*[0-9a-f]+:$", f[0]) and re.match(r"^[0-9a-f ]+$", f[1].strip() or "x"):
            i = Insn()
            i.addr = int(f[0].strip()[:-1], 16)
            i.raw = bytes.fromhex(f[1].replace(" ", ""))
            i.size = len(i.raw)
            t = f[2].split("#")[0].strip()
            parts = t.split()
            pf = []
            while parts and parts[0] in PREFIXES:
                pf.append(parts.pop(0))
            i.prefixes = pf
            i.mnem = parts[0] if parts else ""
            txt = " ".join(parts[1:])
            if re.match(r"^(j\w+|call|loop\w*|xbegin)$", i.mnem):
                txt = re.sub(r"\s*<[^>]*>\s*$", "", txt)
            i.text = txt
            i.ops = split_ops(i.text)
            i.relocs = []
            i.sec = section
            k = 3
            while k + 1 < len(f):
                m = re.match(r"^\s*([0-9a-f]+): (R_X86_64_\w+)$", f[k])
                if m:
                    i.relocs.append((int(m.group(1), 16), m.group(2), f[k + 1].strip()))
                k += 2
            insns[i.addr] = i
            last = i
            continue
        if len(f) == 2 and re.match(r"^\s*[0-9a-f]+:$", f[0]) and last is not None and re.match(r"^[0-9a-f ]+$", f[1].strip() or "x"):
            # continuation of the raw bytes of a long instruction
            extra = bytes.fromhex(f[1].replace(" ", ""))
            last.raw += extra
            last.size = len(last.raw)
            continue
    return insns, labels


def split_ops(s):
    out, depth, cur = [], 0, ""
    for ch in s:
        if ch in "[{(":
            depth += 1
        elif ch in "]})":
            depth -= 1
        if ch == "," and depth == 0:
            out.append(cur.strip())
            cur = ""
        else:
            cur += ch
    if cur.strip():
        out.append(cur.strip())
    return out


def reloc_target(i, r):
    """(symbol_or_section, offset) addressed by a PC-relative / absolute relocation of instruction i."""
    off, typ, expr = r
    m = re.match(r"^(.+?)([+-]0x[0-9a-f]+)?$", expr)
    sym = m.group(1)
    add = int(m.group(2), 16) if m.group(2) else 0
    if typ in ("R_X86_64_PC32", "R_X86_64_PLT32"):
        add += (i.addr + i.size) - off
    return sym, add
