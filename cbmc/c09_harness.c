/* C09: one inductive step of the real rolling-hash run (rolling_hash/rolling_hash2.c incl. hash_fn and
 * _rolling_hash2_run_until_base) from an arbitrary state that satisfies the representation invariant,
 * against the definition written from the property text.  -DW (window), -DN (max buffer bytes). */
#include "verif.h"
#include "rolling_hash/rolling_hash2.c"

/* the dispatched scan symbol: bound to the portable C scan, or (-DSCAN_FILE/-DSCAN_FN) to the C text that asmsym/lift_rh.py
 * lifted from the freshly assembled rolling_hash2_until_00 / _04 object (registers and flags the ABI leaves undefined are draws) */
#ifdef SCAN_FILE
uint64_t lift_stale(void) { return ND_U64(); }
#include SCAN_FILE
uint64_t _rolling_hash2_run_until(uint32_t *idx, int max_idx, uint64_t *t1, uint64_t *t2, uint8_t *b1, uint8_t *b2, uint64_t h, uint64_t mask, uint64_t trigger)
{
        return SCAN_FN(idx, max_idx, t1, t2, b1, b2, h, mask, trigger);
}
#else
uint64_t _rolling_hash2_run_until(uint32_t *idx, int max_idx, uint64_t *t1, uint64_t *t2, uint8_t *b1, uint8_t *b2, uint64_t h, uint64_t mask, uint64_t trigger)
{
        return _rolling_hash2_run_until_base(idx, max_idx, t1, t2, b1, b2, h, mask, trigger);
}
#endif

static uint64_t rol64(uint64_t x, unsigned r) { r &= 63; return r ? (x << r) | (x >> (64 - r)) : x; }

static uint8_t stream[W + N];   /* the last W bytes before the call, then the call's buffer */
static struct isal_rh_state2 *stp;   /* arbitrary content: the tables are NOT the library's constants */
#define st (*stp)

/* hash of the window ending just before stream position p+W, from scratch: XOR_j rol(T[c_j], W-1-j) */
static uint64_t window_hash(unsigned p)
{
        uint64_t h = 0;
        for (unsigned j = 0; j < W; j++)
                h ^= rol64(st.table1[stream[p + j]], W - 1 - j);
        return h;
}

void harness(void)
{
        uint8_t *buf = verif_obj(N ? N : 1);          /* the caller's buffer: its own object of exactly max N bytes */
        uint32_t max_len = ND_U32();
        VASSUME(max_len <= N);
        uint32_t mask = ND_U32(), trigger = ND_U32();
#ifdef FIXED_MASK
        VASSUME(mask == FIXED_MASK);   /* BMI2 scan: pext with a symbolic mask does not finish; decided per listed mask */
#endif
        VASSUME((trigger & ~mask) == 0);
        stp = verif_obj(sizeof(struct isal_rh_state2));
#ifdef REPLAY
        for (unsigned b = 0; b < 256; b++) {   /* native replay: some concrete tables that satisfy the invariant */
                st.table1[b] = 0x9e3779b97f4a7c15ull * (b + 1) ^ (0xc2b2ae3d27d4eb4full >> (b & 31));
                st.table2[b] = rol64(st.table1[b], W);
        }
#endif
        for (unsigned k = 0; k < W + N; k++) {
                stream[k] = ND_U8();
                uint64_t tv = ND_U64();   /* the table entry of this byte: an explicit draw so that replays use the same tables */
#ifdef REPLAY
                st.table1[stream[k]] = tv;
                st.table2[stream[k]] = rol64(tv, W);
#else
                VASSUME(st.table1[stream[k]] == tv);
#endif
                /* representation invariant for the entries that can be looked up: table2 = rol(table1, w) */
                VASSUME(st.table2[stream[k]] == rol64(st.table1[stream[k]], W));
        }
        st.w = W;
        for (unsigned j = 0; j < W; j++)
                st.history[j] = stream[j];
        for (unsigned j = 0; j < N; j++)
                buf[j] = stream[W + j];
        /* the definition is evaluated before the call (afterwards the state object has been written to) */
        uint64_t HW[N + 1];
        for (unsigned p = 0; p <= N; p++)
                HW[p] = window_hash(p);
        st.hash = HW[0];                                 /* invariant: hash == H_w(history) */
        uint8_t hist_guard = st.history[W < 48 ? W : 47];

        uint32_t offset = ND_U32();
        int rc = _rolling_hash2_run(&st, buf, max_len, mask, trigger, &offset);

        /* definition: first position p in 1..max_len whose window hash satisfies the trigger */
        unsigned exp_off = max_len;
        int exp_hit = 0;
        for (unsigned p = 1; p <= N; p++)
                if (!exp_hit && p <= max_len && ((uint32_t) HW[p] & mask) == trigger) {
                        exp_off = p;
                        exp_hit = 1;
                }
        VASSERT(rc == (exp_hit ? ISAL_FINGERPRINT_RET_HIT : ISAL_FINGERPRINT_RET_MAX), "C09:run:hit-reported-iff-a-window-satisfies-the-trigger");
        VASSERT(offset == exp_off, "C09:run:offset-is-the-first-hit-position-or-max_len");
        VASSERT(st.hash == HW[exp_off], "C09:run:state-hash-is-the-hash-of-the-last-w-bytes");
        unsigned j = ND_U8() % W;
        VASSERT(st.history[j] == stream[exp_off + j], "C09:run:history-holds-the-last-w-stream-bytes");
        if (W < 48)
                VASSERT(st.history[W] == hist_guard, "C09,C08:run:history-beyond-w-untouched");
        VASSERT(st.w == W, "C09:run:window-size-unchanged");
        unsigned jb = ND_U8() % (N ? N : 1);
        VASSERT(N == 0 || buf[jb] == stream[W + jb], "C08:run:input-buffer-unmodified");
        WITNESS_END();
}
