/* Harness support shared by every CBMC harness of /verif.
 * Three modes:  (default) CBMC;  -DWITNESS reachability twin (assertions off, final assert(0));
 *               -DREPLAY  native replay of a counterexample (nondet draws come from argv). */
#ifndef VERIF_H
#define VERIF_H
#include <stdint.h>
#include <stddef.h>
#include <stdlib.h>
#include <string.h>

#define ND_MAX 256
extern uint64_t nd_log[ND_MAX];
extern int nd_n;

#ifdef REPLAY
#include <stdio.h>
uint64_t replay_next(void);
#define ND_DRAW(T, fn) ((T) replay_next())
#define VASSUME(c) do { if (!(c)) { printf("REPLAY-ASSUME-FALSE %s:%d %s\n", __FILE__, __LINE__, #c); exit(77); } } while (0)
#define VASSERT(c, msg) do { if (!(c)) { printf("REPLAY-ASSERT-FAILED %s\n", msg); exit(1); } } while (0)
#define WITNESS_END() do { } while (0)
#define HAVOC_OBJ(p, n) memset((p), 0xA5, (n))
#else
uint8_t nondet_u8(void); uint16_t nondet_u16(void); uint32_t nondet_u32(void); uint64_t nondet_u64(void);
int nondet_int(void);
/* every draw is assigned to the scalar nd_cur: the sequence of its assignments in a counterexample trace is the
 * draw sequence that the native replay feeds back through argv */
extern uint64_t nd_cur;
#define ND_DRAW(T, fn) ((T) (nd_cur = (uint64_t) fn()))
#define VASSUME(c) __CPROVER_assume(c)
#define HAVOC_OBJ(p, n) __CPROVER_havoc_slice((p), (n))
#ifdef WITNESS
#define VASSERT(c, msg) do { } while (0)
#define WITNESS_END() __CPROVER_assert(0, "WITNESS reach")
#else
#define VASSERT(c, msg) __CPROVER_assert((c), msg)
#define WITNESS_END() do { } while (0)
#endif
#endif

#define ND_U8()  ND_DRAW(uint8_t, nondet_u8)
#define ND_U16() ND_DRAW(uint16_t, nondet_u16)
#define ND_U32() ND_DRAW(uint32_t, nondet_u32)
#define ND_U64() ND_DRAW(uint64_t, nondet_u64)
#define ND_INT() ND_DRAW(int, nondet_int)

/* a pointer whose dereference is an error: one byte that has been freed (CBMC: deallocated object;
 * native replay: address of an inaccessible page) */
void *verif_poison_ptr(void);
void *verif_poison_obj(size_t n);      /* like verif_poison_ptr but of a given size */
void *verif_obj(size_t n);            /* fresh object of n bytes with arbitrary content */

#endif
