/* C08 (C part): the copy / clear helpers of include/memcpy_inline.h touch exactly n bytes.
 *   -DFN  1 memcpy_varlen | 2 memcpy_fixedlen | 3 memclr_varlen | 4 memclr_fixedlen   (the names the tree uses)
 *   the length n is the constant c08_n (one CBMC run per length)
 * Source and destination are separate objects of EXACTLY n bytes (layout 0), so a load or store one byte outside is a
 * CBMC pointer-check failure (native replay: the objects end flush against a PROT_NONE page); in layout 1 the
 * destination lies inside a larger object with 32 guard bytes on each side, which must keep their values.  The result
 * must equal memcpy / memset(0): every destination byte (one arbitrary index = all) has the source byte / zero, the
 * source is unmodified. */
#include "verif.h"
#include "memcpy_inline.h"

#ifdef REPLAY
#include <sys/mman.h>
static uint8_t *exact_obj(size_t n)
{
        size_t pg = 4096, body = ((n + pg - 1) / pg + 1) * pg;
        uint8_t *m = mmap(0, body + pg, PROT_READ | PROT_WRITE, MAP_PRIVATE | MAP_ANONYMOUS, -1, 0);
        mprotect(m + body, pg, PROT_NONE);
        uint8_t *p = m + body - n; /* the object ends flush against the inaccessible page */
        for (size_t i = 0; i < n; i++)
                p[i] = (uint8_t) (0xA5 ^ (i * 7));
        return p;
}
#else
static uint8_t *exact_obj(size_t n) { return verif_obj(n); }
#endif

/* the length: a constant that lives in a separate one-line translation unit (lib/mhglue.py links it to the goto binary of
 * this file, which is built once per FN: parsing the intrinsics headers takes 10 s) or comes from -DN */
#ifdef N
const size_t c08_n = N;
#else
extern const size_t c08_n;
#endif

void harness(void)
{
        size_t n = c08_n; /* concrete: CBMC propagates it (a symbolic size of the two objects does not terminate in reasonable time) */
        int layout = ND_U8() & 1;
        uint8_t *src = exact_obj(n);
        uint8_t *dobj = exact_obj(layout ? n + 64 : n);
        uint8_t *dst = layout ? dobj + 32 : dobj;
        size_t j = ND_U32(), g = ND_U32();
        uint8_t sj = 0, gold = 0;
        if (n > 0) {
                j %= n;
                sj = src[j];
        }
        if (layout) {
                g %= 64;
                if (g >= 32)
                        g += n; /* 0..31: guard in front, 32+n..63+n: guard behind */
                gold = dobj[g];
        }
#if FN == 1
        memcpy_varlen(dst, src, n);
#elif FN == 2
        memcpy_fixedlen(dst, src, n);
#elif FN == 3
        memclr_varlen(dst, n);
#else
        memclr_fixedlen(dst, n);
#endif
        if (n > 0) {
#if FN <= 2
                VASSERT(dst[j] == sj, "C08:memcpy_inline:copy-equals-memcpy-(every-destination-byte-is-the-source-byte)");
#else
                VASSERT(dst[j] == 0, "C08:memcpy_inline:clear-equals-memset-0");
#endif
                VASSERT(src[j] == sj, "C08:memcpy_inline:source-unmodified");
        }
        if (layout)
                VASSERT(dobj[g] == gold, "C08:memcpy_inline:bytes-outside-the-n-byte-destination-untouched");
        WITNESS_END();
}
