/* C17 side condition: the real self-test drivers stay inside their documented return range {0,1}
 * (internal_fips.h) whatever the crypto entry points compute (they have no body here: arbitrary results). */
#include "verif.h"
#if WHICH == 1
#include "fips/sha_self_tests.c"
void harness(void)
{
        int r = _sha_self_tests();
        VASSERT(r == 0 || r == 1, "C13,C17:_sha_self_tests-returns-the-documented-0-or-1");
        WITNESS_END();
}
#else
#include "fips/aes_self_tests.c"
void harness(void)
{
        int r = _aes_self_tests();
        VASSERT(r == 0 || r == 1, "C13,C17:_aes_self_tests-returns-the-documented-0-or-1");
        WITNESS_END();
}
#endif
