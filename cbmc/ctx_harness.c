/* Context-layer harness (C01-X, C06-X, C11, C15 and the copy footprint part of C08) for one
 * real *_ctx_<family>.c file, which is #included below so that its static functions are reachable.
 *
 * -D parameters (set by checks/ctxlayer.py from the current sources):
 *   CTXFILE  "sha256_mb/sha256_ctx_avx2.c"     HDR "sha256_mb_internal.h"
 *   ALG SHA256   BS 64   PADF 8   LEN_LE 0|1   SM3SWAP 0|1   LENSHIFT 4
 *   FN_SUBMIT _sha256_ctx_mgr_submit_avx2  FN_FLUSH _sha256_ctx_mgr_flush_avx2  FN_RESUBMIT sha256_ctx_mgr_resubmit
 *   MGR_SUBMIT _sha256_mb_mgr_submit_avx2  MGR_FLUSH _sha256_mb_mgr_flush_avx2
 *   SCEN 1 submit | 2 flush | 3 wrapper (isal_ submit through the wrapper TU, WRAPFILE/ISAL_SUBMIT/DISPATCH_SUBMIT)
 *   MIN_TOTAL (C15 slices: assume the running total before the call is >= MIN_TOTAL)
 *
 * Model: every context's message is a *stream*; ghost state tracks, per context, how many stream
 * bytes have been handed to the manager (H), which stream range the partial-block buffer holds
 * (pb_start, pb_len) and which stream range the caller's current buffer holds (ubase, upos, ulen).
 * The copy helpers of memcpy_inline.h are replaced by loggers that update this provenance instead
 * of moving bytes (their own correctness: checks/c08); the manager is a stub that checks, for each
 * job, that it covers exactly the next unhashed stream bytes, that the digest it receives is the
 * one the previous job of that context produced (or the standard IV), and that padding bytes are
 * the standard padding of the total length; it then hands back NULL or any context it holds. */
#include "verif.h"
#include <assert.h>
#include HDR
#include "memcpy_inline.h"

#define CAT_(a, b) a##b
#define CAT(a, b) CAT_(a, b)
#define CAT3(a, b, c) CAT(CAT(a, b), c)
#define CTX CAT3(ISAL_, ALG, _HASH_CTX)
#define CMGR CAT3(ISAL_, ALG, _HASH_CTX_MGR)
#define JOB CAT3(ISAL_, ALG, _JOB)
#define JMGR CAT3(ISAL_, ALG, _MB_JOB_MGR)
/* WORD (digest word type) and NWORDS come from the command line: the standard's values */

/* standard initial values, written from FIPS 180-4 / RFC 1321 / GB/T 32905 (not from the headers) */
#define IV_SHA1 { 0x67452301u, 0xefcdab89u, 0x98badcfeu, 0x10325476u, 0xc3d2e1f0u }
#define IV_SHA256 { 0x6a09e667u, 0xbb67ae85u, 0x3c6ef372u, 0xa54ff53au, 0x510e527fu, 0x9b05688cu, 0x1f83d9abu, 0x5be0cd19u }
#define IV_SHA512 { 0x6a09e667f3bcc908ull, 0xbb67ae8584caa73bull, 0x3c6ef372fe94f82bull, 0xa54ff53a5f1d36f1ull, \
                    0x510e527fade682d1ull, 0x9b05688c2b3e6c1full, 0x1f83d9abfb41bd6bull, 0x5be0cd19137e2179ull }
#define IV_MD5 { 0x67452301u, 0xefcdab89u, 0x98badcfeu, 0x10325476u }
#define IV_SM3 { 0x7380166fu, 0x4914b2b9u, 0x172442d7u, 0xda8a0600u, 0xa96f30bcu, 0x163138aau, 0xe38dee4du, 0xb0fb0e4eu }
static const WORD std_iv[NWORDS] = CAT(IV_, ALG);

struct ghost {
        int in_mgr, last, padded, accepted;
        uint64_t total, H, pb_start;
        uint32_t pb_len;
        const char *ubase;
        uint64_t upos;
        uint32_t ulen;
        uint32_t jobs;
        WORD dtoken;
};
static struct ghost G[2];
static uint64_t g_pad_total;   /* total for which the padding contract stub was last applied */
static const uint8_t *g_pad_buf;
static int g_pad_calls;
static CTX *C[2];
static CMGR *M;
static unsigned g_didx;
static int g_mgr_calls;

static int which_ctx_job(JOB *job) { return job == &C[0]->job ? 0 : job == &C[1]->job ? 1 : -1; }

#ifdef REPLAY
#define SAME_OBJ(p, base, n) ((const char *) (p) >= (const char *) (base) && (const char *) (p) <= (const char *) (base) + (n))
#else
#define SAME_OBJ(p, base, n) __CPROVER_same_object((p), (base))
#endif

/* ---- logging replacement for memcpy_varlen (the only variable-length copy of the context layer) */
static void stub_copy(void *dst, const void *src, size_t n)
{
        int i = SAME_OBJ(dst, C[0], sizeof(CTX)) ? 0 : 1;
        VASSERT(SAME_OBJ(dst, C[i], sizeof(CTX)), "C08:ctx-copy:destination-inside-a-context");
        CTX *c = C[i];
        size_t doff = (size_t) ((uint8_t *) dst - c->partial_block_buffer);
        VASSERT(doff <= 2 * BS && n <= 2 * BS - doff, "C08:ctx-copy:stays-inside-partial-block-buffer");
        VASSERT(G[i].ubase != 0 && SAME_OBJ(src, G[i].ubase, G[i].ulen), "C08:ctx-copy:source-is-the-callers-buffer");
        size_t soff = (size_t) ((uintptr_t) src - (uintptr_t) G[i].ubase); /* same object (checked above): offset difference */
        VASSERT(soff <= G[i].ulen && n <= G[i].ulen - soff, "C08:ctx-copy:reads-only-buffer[0..len)");
        uint64_t pos = G[i].upos + soff;
        VASSERT(doff == G[i].pb_len, "C01:ctx-copy:appends-at-the-fill-level-of-the-partial-buffer");
        if (G[i].pb_len == 0)
                G[i].pb_start = pos;
        else
                VASSERT(pos == G[i].pb_start + G[i].pb_len, "C01:ctx-copy:bytes-appended-in-stream-order");
        G[i].pb_len += (uint32_t) n;
}
/* some families call memcpy_fixedlen with a run-time length for the partial-buffer copies: those go to
 * the same logger; compile-time-constant sizes (digest initialisation) are plain copies */
#undef memcpy_varlen
#define memcpy_varlen(d, s, n) stub_copy((d), (s), (n))
#undef memcpy_fixedlen
#define memcpy_fixedlen(d, s, n) (__builtin_constant_p(n) ? (void) memcpy((d), (s), (n)) : stub_copy((d), (s), (n)))

static uint8_t pad_byte(uint64_t total, uint32_t fill, uint32_t nbytes, uint32_t k)
{
        /* standard MD-style padding of a message of `total` bytes whose last partial block has `fill` bytes */
        if (k == fill)
                return 0x80;
        if (k < nbytes - 8) /* zeros, including the upper half of a 128-bit length field */
                return 0;
        uint64_t bits = total << 3;
        uint32_t j = k - (nbytes - 8); /* 0..7 within the 64-bit length */
#if LEN_LE
        return (uint8_t) (bits >> (8 * j));
#else
        return (uint8_t) (bits >> (8 * (7 - j)));
#endif
}

#ifndef REAL_HASH_PAD
/* contract of hash_pad (proved on the real function by SCEN 5): writes the standard padding of a
 * message of total_len bytes behind the total_len mod BS carried bytes and returns the block count */
uint32_t stub_hash_pad(uint8_t *padblock, uint64_t total_len)
{
        uint32_t fill = (uint32_t) (total_len & (BS - 1));
        g_pad_total = total_len;
        g_pad_buf = padblock;
        g_pad_calls++;
        return (fill + 1 + PADF <= BS) ? 1 : 2;
}
#endif

static JOB *pick(int must)
{
        /* the manager hands back NULL or a job it holds (completed).  Context 0 is the context under
         * test; context 1 (wrapper scenario only) is another context whose last job is finishing. */
        uint8_t sel = ND_U8() % 3;
        if (sel == 2 && G[1].in_mgr) {
                G[1].in_mgr = 0;
                return &C[1]->job;
        }
        if ((sel == 1 || must) && G[0].in_mgr) {
                G[0].in_mgr = 0;
                return &C[0]->job;
        }
        if (must && G[1].in_mgr) {
                G[1].in_mgr = 0;
                return &C[1]->job;
        }
        return 0;
}

JOB *MGR_SUBMIT(JMGR *state, JOB *job)
{
        int i = which_ctx_job(job);
        g_mgr_calls++;
        VASSERT(i >= 0, "C06:mgr-submit:job-belongs-to-a-known-context");
        CTX *c = C[i];
        VASSERT(state == &M->mgr, "C06:mgr-submit:right-manager");
        VASSERT(!G[i].in_mgr, "C06,C11:mgr-submit:context-not-already-in-the-manager");
        VASSERT(G[i].accepted, "C11:mgr-submit:only-accepted-submissions-reach-the-manager");
        VASSERT(c->status & ISAL_HASH_CTX_STS_PROCESSING, "C06:mgr-submit:context-in-manager-is-marked-processing");
        VASSERT(job->len >= 1 && job->len < (1ull << (32 - LENSHIFT)), "C15:mgr-submit:block-count-within-manager-precondition");
        VASSERT(job->result_digest[g_didx] == G[i].dtoken, "C01,C20:mgr-submit:chaining-value-is-previous-result-or-IV");
        uint64_t nbytes = (uint64_t) job->len * BS;
        if (job->buffer == c->partial_block_buffer) {
                VASSERT(G[i].pb_len == 0 || G[i].pb_start == G[i].H, "C01:mgr-submit:partial-buffer-holds-next-unhashed-bytes");
                if (c->status & ISAL_HASH_CTX_STS_COMPLETE) {
                        VASSERT(G[i].last && !G[i].padded, "C01:mgr-submit:padding-only-once-and-only-after-LAST");
                        VASSERT(G[i].H + G[i].pb_len == G[i].total && G[i].pb_len < BS, "C01:mgr-submit:all-message-bytes-consumed-before-padding");
                        uint32_t expect = (G[i].pb_len + 1 + PADF <= BS) ? BS : 2 * BS;
                        VASSERT(nbytes == expect, "C01:mgr-submit:padding-block-count");
                        uint32_t k = ND_U32() % (2 * BS); /* drawn in both modes so that replays see the same draw sequence */
#ifdef REAL_HASH_PAD
                        if (k >= G[i].pb_len && k < nbytes)
                                VASSERT(c->partial_block_buffer[k] == pad_byte(G[i].total, G[i].pb_len, (uint32_t) nbytes, k),
                                        "C01,C15,C20:mgr-submit:padding-bytes-are-the-standard-padding-of-the-total-length");
#else
                        VASSERT(g_pad_calls >= 1 && g_pad_buf == c->partial_block_buffer && g_pad_total == G[i].total,
                                "C01,C15:mgr-submit:padding-computed-for-this-context-and-for-the-exact-total-length");
#endif
                        G[i].padded = 1;
                        G[i].H = G[i].total;
                        G[i].pb_len = 0;
                } else {
                        VASSERT(job->len == 1 && G[i].pb_len == BS, "C01:mgr-submit:carried-block-job-is-exactly-one-full-block");
                        G[i].H += BS;
                        G[i].pb_len = 0;
                }
        } else {
                VASSERT(G[i].ubase != 0 && SAME_OBJ(job->buffer, G[i].ubase, G[i].ulen), "C08:mgr-submit:bulk-job-points-into-the-callers-buffer");
                uint64_t off = (uint64_t) ((uintptr_t) job->buffer - (uintptr_t) G[i].ubase);
                VASSERT(off <= G[i].ulen && nbytes <= G[i].ulen - off, "C08:mgr-submit:bulk-job-inside-buffer[0..len)");
                VASSERT(G[i].upos + off == G[i].H, "C01:mgr-submit:bulk-job-starts-at-next-unhashed-byte");
                VASSERT(G[i].pb_len == 0 || G[i].pb_start == G[i].H + nbytes, "C01:mgr-submit:saved-tail-follows-the-bulk-job");
                VASSERT(!(c->status & ISAL_HASH_CTX_STS_COMPLETE), "C01:mgr-submit:no-data-job-after-padding");
                G[i].H += nbytes;
        }
        G[i].in_mgr = 1;
        G[i].jobs++;
        job->result_digest[g_didx] = (WORD) ND_U64(); /* the manager overwrites the digest; only the observed word matters */
        G[i].dtoken = job->result_digest[g_didx];
#if SCEN == 2
        return 0; /* flush scenario: the job stays inside until a later flush returns it (the other order is scenario 4) */
#else
        return pick(0);
#endif
}

JOB *MGR_FLUSH(JMGR *state)
{
        g_mgr_calls++;
        VASSERT(state == &M->mgr, "C06:mgr-flush:right-manager");
        return pick(1); /* contract M: flush returns NULL only when the manager is empty */
}

#include CTXFILE
#ifdef WRAPFILE
#include WRAPFILE
CTX *DISPATCH_SUBMIT(CMGR *mgr, CTX *ctx, const void *buffer, uint32_t len, ISAL_HASH_CTX_FLAG flags)
{
        return FN_SUBMIT(mgr, ctx, buffer, len, flags);
}
#endif

static WORD bswap_word(WORD w)
{
        return (WORD) (((w & 0xffu) << 24) | ((w & 0xff00u) << 8) | ((w >> 8) & 0xff00u) | ((w >> 24) & 0xffu));
}

/* state of a context whose job is inside the manager (or has just been handed back by it) */
static void assume_inflight(int i)
{
        CTX *c = C[i];
        uint32_t st = (uint32_t) c->status;
        VASSUME(st == 1 || st == 3 || st == 5);
        G[i].in_mgr = 1;
        G[i].accepted = 1;
        G[i].last = (st & 6) != 0;
        G[i].padded = (st & 4) != 0;
        G[i].total = c->total_length;
        VASSUME(G[i].total < (1ull << 60));
        uint32_t inc = c->incoming_buffer_length, pl = c->partial_block_buffer_length;
        if (G[i].padded) {
                G[i].H = G[i].total;
                G[i].pb_len = 0;
                G[i].ubase = 0;
                G[i].ulen = 0;
                G[i].upos = G[i].total;
        } else {
                VASSUME(pl < BS && (pl == 0 || inc == 0) && (uint64_t) pl + inc <= G[i].total);
                G[i].H = G[i].total - pl - inc;
                VASSUME((G[i].H & (BS - 1)) == 0);
                G[i].pb_len = pl;
                G[i].pb_start = G[i].H;
                G[i].ubase = (const char *) verif_obj(1) + (ND_U32() & 0xffff);
                c->incoming_buffer = G[i].ubase;
                G[i].ulen = inc;
                G[i].upos = G[i].total - inc;
        }
        G[i].dtoken = c->job.result_digest[g_didx];
}

/* what must hold for every context when the call under test returns `ret` */
static void check_after(int i, CTX *ret, int rejected)
{
        CTX *c = C[i];
        if (rejected)
                return;
        if (ret == c) {
                VASSERT(!G[i].in_mgr, "C06:return:handed-back-context-is-not-still-inside-the-manager");
                VASSERT(!(c->status & ISAL_HASH_CTX_STS_PROCESSING), "C06:return:handed-back-context-is-not-marked-processing");
                if (G[i].last) {
                        VASSERT(c->status == ISAL_HASH_CTX_STS_COMPLETE, "C06:return:context-after-LAST-is-complete");
                        VASSERT(G[i].padded && G[i].H == G[i].total, "C01:return:complete-context-has-hashed-the-whole-padded-stream");
#if SM3SWAP
                        VASSERT(c->job.result_digest[g_didx] == bswap_word(G[i].dtoken), "C01:return:sm3-digest-is-byte-swapped-exactly-once");
#else
                        VASSERT(c->job.result_digest[g_didx] == G[i].dtoken, "C01:return:digest-is-what-the-last-job-produced");
#endif
                } else {
                        VASSERT(c->status == ISAL_HASH_CTX_STS_IDLE, "C06:return:context-after-FIRST/UPDATE-is-idle");
                        VASSERT(c->incoming_buffer_length == 0, "C01:return:idle-context-has-consumed-its-buffer");
                        VASSERT(G[i].H + G[i].pb_len == G[i].total, "C01:return:idle-context-hashed-plus-carried-equals-total");
                        VASSERT(c->partial_block_buffer_length == G[i].pb_len && G[i].pb_len < BS, "C01:return:carried-length-matches-buffer-content");
                        VASSERT(G[i].pb_len == 0 || G[i].pb_start == G[i].H, "C01:return:carried-bytes-are-the-stream-tail");
                        VASSERT(c->job.result_digest[g_didx] == G[i].dtoken, "C01:return:chaining-value-untouched");
                }
                VASSERT(c->total_length == G[i].total, "C01,C15:return:total_length-is-the-sum-of-segment-lengths");
        } else if (G[i].in_mgr) {
                VASSERT(c->status & ISAL_HASH_CTX_STS_PROCESSING, "C06:return:context-kept-by-the-manager-is-marked-processing");
                VASSERT(c->total_length == G[i].total, "C01,C15:inflight:total_length-is-the-sum-of-segment-lengths");
                if (!G[i].padded) {
                        uint32_t inc = c->incoming_buffer_length;
                        VASSERT(G[i].H + G[i].pb_len + inc == G[i].total, "C01:inflight:hashed+carried+pending-equals-total");
                        VASSERT(c->partial_block_buffer_length == G[i].pb_len && G[i].pb_len < BS, "C01:inflight:carried-length-matches-buffer-content");
                        VASSERT(G[i].pb_len == 0 || inc == 0, "C01:inflight:pending-input-only-with-empty-partial-buffer");
                        VASSERT(inc == 0 || (G[i].ubase != 0 && (const char *) c->incoming_buffer == G[i].ubase + (G[i].total - inc - G[i].upos)),
                                "C01:inflight:pending-pointer-addresses-the-unconsumed-part-of-the-buffer");
                        VASSERT(((uint32_t) c->status & 4) == 0 && (((uint32_t) c->status & 2) != 0) == (G[i].last != 0), "C06:inflight:status-remembers-LAST");
                }
        } else {
                VASSERT(0, "C06:return:context-neither-handed-back-nor-held-by-the-manager-(lost)");
        }
}


void harness(void)
{
        C[0] = verif_obj(sizeof(CTX));
        C[1] = verif_obj(sizeof(CTX));
        M = verif_poison_obj(sizeof(CMGR)); /* the context layer may only form &mgr->mgr; touching it fails the pointer check */
        g_didx = ND_U8() % NWORDS;
        for (int i = 0; i < 2; i++) {
                /* the API-visible fields are explicit draws (so that a counterexample can be replayed natively);
                 * every other byte of the objects is arbitrary as well */
                C[i]->status = (ISAL_HASH_CTX_STS) ND_U32();
                C[i]->error = (ISAL_HASH_CTX_ERROR) ND_U32();
                C[i]->total_length = ND_U64();
                C[i]->incoming_buffer_length = ND_U32();
                C[i]->partial_block_buffer_length = ND_U32();
                C[i]->job.result_digest[g_didx] = (WORD) ND_U64();
        }
        void *ud0 = C[0]->user_data, *ud1 = C[1]->user_data;
        /* the other context (wrapper scenario): its padding job is in flight; it may carry the error of a
         * submit that was rejected while it was in flight (that this state is reachable is scenario 1's
         * "reject" branch: a busy context keeps everything but gets error set) */
        int other_live = 0;
#if SCEN == 3
        other_live = ND_U8() & 1;
        if (other_live) {
                assume_inflight(1);
                VASSUME(G[1].padded);
        }
        int32_t err1 = (int32_t) C[1]->error;
        VASSUME(err1 >= -3 && err1 <= 0);
#endif
        CTX *ret = 0;
        int rejected = 0;
#if SCEN == 1 || SCEN == 3
        /* ---- one submit on context 0 from an arbitrary API-reachable state */
        CTX *c = C[0];
        uint32_t len = ND_U32();
        int flags = ND_INT();
        const char *buffer = verif_obj(1); /* never dereferenced by the context layer (a dereference is a pointer-check failure); offsets are pure pointer arithmetic */
        buffer += ND_U32() & 0xffff; /* arbitrary alignment */
        uint32_t st = (uint32_t) c->status;
        VASSUME(st == 0 || st == 1 || st == 3 || st == 4 || st == 5);
        int bad_flags = (flags & ~3) != 0, busy = (st & 1) != 0, done = (st & 4) && !(flags & 1);
        rejected = bad_flags || busy || done;
        uint64_t t0 = c->total_length;
        CTX before = *c;
        unsigned pk = ND_U8() % (2 * BS);
        if (!rejected) {
                G[0].accepted = 1;
                G[0].last = (flags & 2) != 0;
                if (flags & 1) {
                        t0 = 0;
                        G[0].pb_len = 0;
                        G[0].dtoken = std_iv[g_didx];
                } else {
                        VASSUME(st == 0); /* idle: invariant left by the previous accepted segment */
                        VASSUME(t0 < (1ull << 60) && c->partial_block_buffer_length == (uint32_t) (t0 & (BS - 1)));
                        VASSUME(c->incoming_buffer_length == 0);
                        G[0].pb_len = c->partial_block_buffer_length;
                        G[0].dtoken = c->job.result_digest[g_didx];
                }
#ifdef MIN_TOTAL
                VASSUME(t0 + len >= MIN_TOTAL);
#endif
                G[0].H = t0 - G[0].pb_len;
                G[0].pb_start = G[0].H;
                G[0].total = t0 + len;
                G[0].ubase = buffer;
                G[0].upos = t0;
                G[0].ulen = len;
        }
#if SCEN == 1
        ret = FN_SUBMIT(M, c, buffer, len, (ISAL_HASH_CTX_FLAG) flags);
#else
        CTX *out = (CTX *) &G; /* sentinel */
        int rc = ISAL_SUBMIT(M, c, &out, buffer, len, (ISAL_HASH_CTX_FLAG) flags);
        ret = out;
        if (!rejected)
                VASSERT(rc == 0, "C11:wrapper:valid-submit-returns-0-whatever-context-comes-back");
        else
                VASSERT(rc != 0 && out == c, "C11:wrapper:rejected-submit-returns-its-error-and-the-context");
#endif
        if (rejected) {
                int32_t e = (int32_t) c->error;
                VASSERT(ret == c, "C11:reject:context-handed-straight-back");
                VASSERT((bad_flags && e == ISAL_HASH_CTX_ERROR_INVALID_FLAGS) || (busy && e == ISAL_HASH_CTX_ERROR_ALREADY_PROCESSING) ||
                                (done && e == ISAL_HASH_CTX_ERROR_ALREADY_COMPLETED), "C11:reject:error-code-matches-the-reason");
                VASSERT(g_mgr_calls == 0, "C11:reject:manager-not-touched");
                VASSERT(c->status == before.status && c->total_length == before.total_length && c->incoming_buffer == before.incoming_buffer &&
                                c->incoming_buffer_length == before.incoming_buffer_length &&
                                c->partial_block_buffer_length == before.partial_block_buffer_length && c->user_data == before.user_data &&
                                c->job.buffer == before.job.buffer && c->job.len == before.job.len && c->job.status == before.job.status &&
                                c->job.user_data == before.job.user_data && c->job.result_digest[g_didx] == before.job.result_digest[g_didx] &&
                                c->partial_block_buffer[pk] == before.partial_block_buffer[pk],
                        "C11:reject:context-unchanged-except-error");
        } else {
                VASSERT((int32_t) c->error == 0, "C11:accept:error-cleared");
        }
        check_after(0, ret, rejected);
        if (other_live)
                check_after(1, ret, 0);
#elif SCEN == 4
        /* ---- the manager has just handed back context 0 in an arbitrary in-flight state: resubmit loop */
        assume_inflight(0);
        G[0].in_mgr = 0;
        ret = FN_RESUBMIT(M, C[0]);
        check_after(0, ret, 0);
#elif SCEN == 5
        /* ---- the real hash_pad: standard padding for every 64-bit total, nothing else touched */
        {
                uint64_t total = ND_U64();
                VASSUME(total < (1ull << 61));
                uint32_t fill = (uint32_t) (total & (BS - 1));
                uint8_t *pb = C[0]->partial_block_buffer;
                uint32_t k = ND_U32() % (2 * BS);
                uint8_t old = pb[k];
                uint32_t n = hash_pad(pb, total);
                uint32_t expect = (fill + 1 + PADF <= BS) ? 1 : 2;
                VASSERT(n == expect, "C01,C15:hash_pad:block-count");
                if (k < fill)
                        VASSERT(pb[k] == old, "C01:hash_pad:carried-bytes-untouched");
                else if (k < n * BS)
                        VASSERT(pb[k] == pad_byte(total, fill, n * BS, k), "C01,C15,C20:hash_pad:bytes-are-the-standard-padding-of-the-total-length");
        }
#elif SCEN == 2
        /* ---- one flush with 0 or 1 contexts in flight */
        int live0 = ND_U8() & 1;
        if (live0)
                assume_inflight(0);
        ret = FN_FLUSH(M);
        if (ret == 0)
                VASSERT(!G[0].in_mgr && !G[1].in_mgr, "C06:flush:returns-no-context-only-when-the-manager-holds-none");
        if (!live0 && !other_live)
                VASSERT(ret == 0, "C06:flush:empty-manager-returns-no-context");
        if (live0)
                check_after(0, ret, 0);
        if (other_live)
                check_after(1, ret, 0);
        VASSERT(ret == 0 || (ret == C[0] && live0) || (ret == C[1] && other_live), "C06:flush:returns-only-submitted-contexts");
#endif
        VASSERT(C[0]->user_data == ud0 && C[1]->user_data == ud1, "C06:user_data-untouched");
        WITNESS_END();
}
