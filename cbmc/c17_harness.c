/* C17: all interleavings of NTHREADS threads calling the real isal_self_tests() (fips/self_tests.c,
 * -DFIPS_MODE) linked with C lifted from the *assembled* fips/asm_self_tests.o (LIFTED, regenerated on every
 * run).  Every shared access is one atomic statement; sequentially consistent memory is assumed. */
#include "verif.h"
#include "isal_crypto_api.h"
#include "internal_fips.h"

#ifndef NTHREADS
#define NTHREADS 2
#endif
#ifndef SPIN_MAX
#define SPIN_MAX 2
#endif

uint64_t nondet_u64(void);
#define lift_stale() nondet_u64()

static int g_final_seen;
static uint32_t g_final_val;
static int g_aes_entries, g_sha_entries, g_aes_ret, g_sha_ret;

static void on_store(uint32_t v)
{
        VASSERT(v == 0 || v == 1 || v == 3, "C13,C17:status-word-stays-in-{pass,fail,running}");
        if (g_final_seen)
                VASSERT(v == g_final_val, "C13,C17:status-never-changes-once-the-verdict-is-published");
        else if (!(v & 2)) {
                g_final_seen = 1;
                g_final_val = v;
        }
}

#define VLOAD32(x) (x)
#define VSTORE32(x, v) do { __CPROVER_atomic_begin(); on_store((uint32_t) (v)); x = (uint32_t) (v); __CPROVER_atomic_end(); } while (0)
#define VCMPXCHG32(x, expv, src, OLD, ZF) do { __CPROVER_atomic_begin(); OLD = x; if (x == (uint32_t) (expv)) { on_store((uint32_t) (src)); x = (uint32_t) (src); ZF = 1; } else ZF = 0; __CPROVER_atomic_end(); } while (0)
/* cmpxchg without lock prefix: the read and the write are separate bus transactions */
#define VCMPXCHG_NOLOCK32(x, expv, src, OLD, ZF) do { OLD = x; if (OLD == (uint32_t) (expv)) { VSTORE32(x, src); ZF = 1; } else ZF = 0; } while (0)
#define VXCHG32(x, v, OLD) do { __CPROVER_atomic_begin(); OLD = x; on_store((uint32_t) (v)); x = (uint32_t) (v); __CPROVER_atomic_end(); } while (0)
#define VPAUSE() do { } while (0)
/* spin back-edge: bounded by assumption (fair scheduling); but a thread must not keep spinning after the
 * verdict is out - one more trip is legitimate (its read may predate the publish), a second is not */
#define VBACKEDGE(a) do { if (g_final_seen) VASSERT(++lift_post <= 1, "C17:no-thread-keeps-waiting-after-the-verdict-is-published"); \
                          if (++lift_spins > SPIN_MAX) __CPROVER_assume(0); } while (0)

#include LIFTED

int _aes_self_tests(void)
{
        __CPROVER_atomic_begin();
        g_aes_entries++;
        VASSERT(g_aes_entries == 1, "C13,C17:aes-self-tests-entered-exactly-once");
        VASSERT(!g_final_seen, "C13,C17:self-tests-not-started-after-a-verdict-exists");
        __CPROVER_atomic_end();
        return g_aes_ret;
}

int _sha_self_tests(void)
{
        __CPROVER_atomic_begin();
        g_sha_entries++;
        VASSERT(g_sha_entries == 1, "C13,C17:sha-self-tests-entered-exactly-once");
        __CPROVER_atomic_end();
        return g_sha_ret;
}

#include "fips/self_tests.c"

static int g_done;
static void thread_body(void)
{
        int r = isal_self_tests();
        __CPROVER_atomic_begin();
        VASSERT(r == 0 || r == ISAL_CRYPTO_ERR_SELF_TEST, "C17:return-value-is-0-or-ERR_SELF_TEST");
        VASSERT(g_final_seen, "C13,C17:no-call-returns-before-the-verdict-is-published");
        VASSERT(g_aes_entries == 1 && g_sha_entries == 1, "C17:self-tests-have-run-when-a-call-returns");
        VASSERT((r == 0) == (g_final_val == 0), "C13,C17:return-value-agrees-with-the-published-verdict");
        VASSERT((g_final_val == 0) == (g_aes_ret == 0 && g_sha_ret == 0), "C13,C17:published-verdict-is-pass-iff-every-group-passed");
        __CPROVER_atomic_end();
        int r2 = isal_self_tests();
        VASSERT(r2 == r, "C13,C17:later-call-observes-the-same-verdict");
        __CPROVER_atomic_begin();
        g_done++;
#ifdef WITNESS
        if (g_done == NTHREADS) __CPROVER_assert(0, "WITNESS reach");
#endif
        __CPROVER_atomic_end();
}

void harness(void)
{
        g_aes_ret = RET_DOMAIN(ND_U8());
        g_sha_ret = RET_DOMAIN(ND_U8());
        __CPROVER_ASYNC_1: thread_body();
#if NTHREADS >= 2
        __CPROVER_ASYNC_2: thread_body();
#endif
#if NTHREADS >= 3
        __CPROVER_ASYNC_3: thread_body();
#endif
}
