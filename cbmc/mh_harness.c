/* Multi-hash glue harness (C05, C10 and the mh part of C08): one inductive step of the REAL update /
 * finalize / init functions of mh_sha1, mh_sha256 and mh_sha1_murmur3_x64_128.  The real translation
 * units are #included below (all five families are instantiated exactly as the build does it: sse/avx/avx2
 * via <alg>.c, avx512 via <alg>_avx512.c, base via the stand-alone *_update_base.c / *_finalize_base.c).
 *
 * -D parameters (set by lib/mhglue.py):
 *   ALG   1 mh_sha1 | 2 mh_sha256 | 3 mh_sha1_murmur3_x64_128
 *   FAM   base | sse | avx | avx2 | avx512          (family whose entry points are called)
 *   SCEN  1 update | 2 finalize | 3 init | 4 public wrappers (isal_* and legacy names, NULL arguments)
 *   CTXOFF  byte offset of the context from a 64-byte boundary (ALIGN_64 of the frame buffer)
 *   BEYOND  (observation runs only) stream totals >= 2^32 instead of < 2^32
 *
 * Model.  The message of the context is a *stream*.  Ghost state: T0 (stream bytes accepted before the
 * call), H (stream bytes handed to the SHA block function so far, in order), (pbs,pbl): the partial
 * buffer holds stream bytes [pbs, pbs+pbl) at offsets [0,pbl); Mpos (stream bytes handed to the murmur
 * block function).  The libc copies of the glue (memcpy / memset on the partial buffer) are replaced
 * by provenance loggers (the caller's buffer has a fully symbolic 32-bit length and is never
 * dereferenced); the assembly block functions are replaced by loggers of (ptr, num_blocks) that check
 * stream order, the chaining value and - in finalize - the content of the padding block through ONE
 * tracked byte position `trk` that is arbitrary (so the assertion covers every byte), the final hash
 * over the segment digests by a stub that returns fresh values which must arrive in the caller's
 * digest buffer.  In the native replay (-DREPLAY) the same harness runs the same real glue with the
 * clear operations really performed.
 *
 * Encoding notes (measured): the context is a typed static object and the harness touches it only at
 * constant offsets, except for the one tracked byte (each access at a symbolic offset costs a byte
 * operation over the whole 3.6 KB object); the stubs never fall back to the libc models of memcpy / memset
 * (a libc call of symbolic length is encoded even on an infeasible path: 900 k variables, minutes); with that
 * an update step takes ~2 s and a finalize step ~8 s (cadical). */
#include "verif.h"
#include <string.h>
#include <assert.h>

#define CAT_(a, b) a##b
#define CAT(a, b) CAT_(a, b)
#define CAT3(a, b, c) CAT(CAT(a, b), c)

#define BLK 1024u /* multi-hash block: 16 segments x 64 bytes (property text) */

#if ALG == 1
#include "mh_sha1_internal.h"
#define CTX struct isal_mh_sha1_ctx
#define NW 5
#define INTERIM mh_sha1_interim_digests
#define DIGEST mh_sha1_digest
#define P mh_sha1
#define FINAL_HASH _sha1_for_mh_sha1
#elif ALG == 2
#include "mh_sha256_internal.h"
#define CTX struct isal_mh_sha256_ctx
#define NW 8
#define INTERIM mh_sha256_interim_digests
#define DIGEST mh_sha256_digest
#define P mh_sha256
#define FINAL_HASH sha256_for_mh_sha256
#elif ALG == 3
#include "mh_sha1_murmur3_x64_128_internal.h"
#define CTX struct isal_mh_sha1_murmur3_x64_128_ctx
#define NW 5
#define INTERIM mh_sha1_interim_digests
#define DIGEST mh_sha1_digest
#define P mh_sha1_murmur3_x64_128
#define FINAL_HASH _sha1_for_mh_sha1
#else
#error ALG
#endif
#define FN_UPDATE CAT3(_, P, CAT(_update_, FAM))
#define FN_FINAL CAT3(_, P, CAT(_finalize_, FAM))
#define FN_INIT CAT3(_, P, _init)

/* standard initial values, from FIPS 180-4 (not from the library headers) */
#if NW == 5
static const uint32_t std_iv[5] = { 0x67452301u, 0xefcdab89u, 0x98badcfeu, 0x10325476u, 0xc3d2e1f0u };
#else
static const uint32_t std_iv[8] = { 0x6a09e667u, 0xbb67ae85u, 0x3c6ef372u, 0xa54ff53au, 0x510e527fu, 0x9b05688cu, 0x1f83d9abu, 0x5be0cd19u };
#endif

/* ------------------------------------------------------------------ the context object */
#ifndef CTXOFF
#define CTXOFF 0
#endif
/* the context at byte offset CTXOFF from a 64-byte boundary (ALIGN_64(ctx->frame_buffer) is evaluated for that alignment;
 * lib/mhglue.py varies CTXOFF over the instances) */
static struct __attribute__((packed)) { uint8_t pad[CTXOFF + 64]; CTX c; } ctx_store
#ifdef REPLAY
__attribute__((aligned(64)))
#endif
;
/* the harness reads / writes the tracked byte through the typed member (an array access for CBMC, not a byte
 * operation on the whole object) */
#define PB(i) (ctx_store.c.partial_block_buffer[(i)])

/* ------------------------------------------------------------------ ghost state */
static CTX *c;                 /* the context under test */
static uint8_t *pb;            /* its partial block buffer */
static const uint8_t *ubase;   /* the caller's buffer of the update call */
static uint64_t ulen;
static uint64_t T0, H, pbs, Mpos;
static uint32_t pbl;
static int n_block, n_final, n_copy, n_clear, n_mblock, n_mtail;
static uint32_t dtoken, mtoken; /* chaining tokens: every word of the interim digests / murmur state is a fixed function of the token */
#define NSEGW (NW * 16)
#define DWORD(i) (dtoken ^ ((uint32_t) (i) * 0x9e3779b9u))
#define MWORD(i) (mtoken + (uint32_t) (i))
static unsigned trk;           /* tracked byte position inside the first 1024 bytes of the partial buffer */
static uint8_t trk_old;
static uint32_t fin[NW], mfin[4];

#ifdef REPLAY
#define IN_OBJ(p, base, n) ((const char *) (p) >= (const char *) (base) && (const char *) (p) <= (const char *) (base) + (n))
#else
#define IN_OBJ(p, base, n) __CPROVER_same_object((p), (base))
#endif
#define IN_CTX(p) (c != 0 && IN_OBJ((p), c, sizeof(CTX)))
#define IN_UBUF(p) (ubase != 0 && IN_OBJ((p), ubase, ulen))
#define PDIFF(p, q) ((uint64_t) ((uintptr_t) (p) - (uintptr_t) (q))) /* only used after the same-object check */

/* ------------------------------------------------------------------ the libc copies of the glue */
static void *mh_memcpy(void *dst, const void *src, size_t n)
{
        n_copy++;
#if SCEN == 1
        VASSERT(IN_CTX(dst), "C08:mh-copy:destination-inside-the-context");
        uint64_t doff = PDIFF(dst, pb);
        VASSERT((uint8_t *) dst >= pb && doff <= 2 * BLK && n <= 2 * BLK - doff, "C08:mh-copy:stays-inside-the-2048-byte-partial-block-buffer");
        VASSERT(IN_UBUF(src), "C08:mh-copy:source-is-the-callers-buffer");
        uint64_t soff = PDIFF(src, ubase);
        VASSERT(soff <= ulen && n <= ulen - soff, "C08:mh-copy:reads-only-buffer[0..len)");
        uint64_t pos = T0 + soff;
        VASSERT(doff == pbl, "C05,C10:mh-copy:appends-at-the-fill-level-of-the-partial-buffer");
        VASSERT(doff + n <= BLK, "C05,C10:mh-copy:carried-bytes-never-exceed-one-block");
        if (pbl == 0)
                pbs = pos;
        else
                VASSERT(pos == pbs + pbl, "C05,C10:mh-copy:bytes-appended-in-stream-order");
        pbl += (uint32_t) n;
        return dst;
#else
        /* finalize / init: the glue copies nothing.  (Not modelled for CBMC: see mh_memset.) */
        VASSERT(0, "C05,C10:mh-copy:finalize-and-init-copy-nothing");
#ifdef REPLAY
        return (memcpy)(dst, src, n);
#else
        return dst;
#endif
#endif
}

static void *mh_memset(void *dst, int ch, size_t n)
{
#if SCEN == 3 || SCEN == 4
        return (memset)(dst, ch, n); /* init clears the whole context: really done */
#else
        n_clear++;
        if (!(IN_CTX(dst) && (uint8_t *) dst >= pb && PDIFF(dst, pb) <= 2 * BLK)) {
                /* not the partial buffer (no such call in the unchanged tree).  Not modelled for CBMC: a libc memset of
                 * symbolic length would be encoded even though the path is infeasible */
                VASSERT(0, "C08:mh-clear:only-the-partial-block-buffer-of-the-context-is-cleared");
#ifdef REPLAY
                return (memset)(dst, ch, n);
#else
                return dst;
#endif
        }
        uint64_t doff = PDIFF(dst, pb);
        VASSERT(n <= 2 * BLK - doff, "C08:mh-clear:stays-inside-the-2048-byte-partial-block-buffer");
#if SCEN == 1
        if (n > 0 && doff < pbl) {
                VASSERT(0, "C05,C10:mh-clear:carried-bytes-not-yet-hashed-are-never-discarded");
                pbl = (uint32_t) doff;
        }
#endif
#ifdef REPLAY
        return (memset)(dst, ch, n);
#else
        if (trk >= doff && trk - doff < n)
                PB(trk) = (uint8_t) ch;
        return dst;
#endif
#endif
}
#define memcpy(d, s, n) mh_memcpy((d), (s), (n))
#define memset(d, ch, n) mh_memset((d), (ch), (n))

/* ------------------------------------------------------------------ chaining values */
static int interim_is_token(void)
{
        const uint32_t *w = (const uint32_t *) c->INTERIM;
        int ok = 1;
        for (unsigned i = 0; i < NSEGW; i++)
                ok &= (w[i] == DWORD(i));
        return ok;
}
static void interim_new_token(void)
{
        uint32_t *w = (uint32_t *) c->INTERIM;
        dtoken = ND_U32(); /* the block function overwrites the segment digests with values the glue cannot know */
        for (unsigned i = 0; i < NSEGW; i++)
                w[i] = DWORD(i);
}
#if ALG == 3
static int murmur_is_token(const uint32_t *md)
{
        return md[0] == MWORD(0) && md[1] == MWORD(1) && md[2] == MWORD(2) && md[3] == MWORD(3);
}
static void murmur_new_token(uint32_t *md)
{
        mtoken = ND_U32();
        for (int i = 0; i < 4; i++)
                md[i] = MWORD(i);
}
#endif

/* ------------------------------------------------------------------ block function loggers */
#if SCEN == 2
static uint64_t Tfin;
static uint32_t fill;
static int two_blocks;

static void check_tail_block(const uint8_t *ptr)
{
        int nblocks = two_blocks ? 2 : 1;
        VASSERT(n_block <= nblocks, "C05,C10:tail:number-of-padding-blocks");
        int last = n_block >= nblocks;
        unsigned k = trk;
        uint8_t b = (ptr == pb) ? PB(k) : ptr[k];
        uint64_t bits = Tfin << 3; /* 64-bit BIT length of the stream */
        uint8_t lenbyte = (uint8_t) (bits >> (8 * ((BLK - 1 - k) & 7)));
        if (n_block == 1) {
                if (k < fill)
                        VASSERT(b == trk_old, "C05,C10:tail:carried-stream-bytes-precede-the-padding");
                else if (k == fill)
                        VASSERT(b == 0x80, "C05,C10:tail:0x80-follows-the-last-message-byte");
                else if (!last || k < BLK - 8)
                        VASSERT(b == 0, "C05,C10:tail:zero-fill-after-0x80");
                else
                        VASSERT(b == lenbyte, "C05,C10,C15:tail:64-bit-big-endian-bit-length-in-the-last-8-bytes");
        } else {
                if (k < BLK - 8)
                        VASSERT(b == 0, "C05,C10:tail:second-padding-block-is-zero-up-to-the-length");
                else
                        VASSERT(b == lenbyte, "C05,C10,C15:tail:64-bit-big-endian-bit-length-in-the-last-8-bytes-of-the-second-block");
        }
}
#endif

#if SCEN == 1
/* once the carried block has been handed to the block function(s) the buffer is logically empty, whether or not the glue clears it */
static void consume_carried_block(void)
{
#if ALG == 3
        if (pbl == BLK && H == pbs + BLK && Mpos == pbs + BLK)
                pbl = 0;
#else
        if (pbl == BLK && H == pbs + BLK)
                pbl = 0;
#endif
}
#endif

static void log_block(const uint8_t *ptr, void *digests, uint8_t *frame, uint32_t nb)
{
        n_block++;
        VASSERT(digests == (void *) c->INTERIM, "C05,C10:block:works-on-the-interim-digests-of-this-context");
        VASSERT(IN_CTX(frame) && frame >= c->frame_buffer && PDIFF(frame, c->frame_buffer) < 64 && ((uintptr_t) frame & 63) == 0 &&
                        PDIFF(frame, c->frame_buffer) + BLK <= sizeof(c->frame_buffer),
                "C08:block:frame-is-64-byte-aligned-and-its-1024-bytes-lie-inside-ctx->frame_buffer");
        VASSERT(nb >= 1, "C05,C10:block:at-least-one-block-per-call");
        VASSERT(interim_is_token(), "C05,C10,C20:block:chaining-value-is-the-previous-result");
        uint64_t nbytes = (uint64_t) nb * BLK;
        if (IN_CTX(ptr)) {
                VASSERT(ptr == pb && nb == 1, "C05,C08,C10:block:a-block-inside-the-context-is-exactly-the-first-1024-bytes-of-the-partial-buffer");
#if SCEN == 1
                VASSERT(pbl == BLK && pbs == H, "C05,C10:block:carried-block-is-complete-and-next-in-stream-order");
                H += BLK;
                consume_carried_block();
#elif SCEN == 2
                if (ptr == pb)
                        check_tail_block(ptr);
#endif
        } else {
#if SCEN == 1
                VASSERT(IN_UBUF(ptr), "C08:block:bulk-blocks-point-into-the-callers-buffer");
                uint64_t off = PDIFF(ptr, ubase);
                VASSERT(off <= ulen && nbytes <= ulen - off, "C08:block:bulk-blocks-inside-buffer[0..len)");
                VASSERT(T0 + off == H, "C05,C10:block:bulk-blocks-start-at-the-next-unhashed-stream-byte");
                VASSERT(pbl == 0 || pbs + pbl <= H, "C05,C10:block:carried-bytes-are-hashed-before-later-stream-bytes");
                H += nbytes;
#elif SCEN == 2
                /* a padding block that does not live in the caller's context: hidden shared state */
                VASSERT(0, "C08,C18:block:padding-block-lives-inside-the-callers-context");
                check_tail_block(ptr);
#endif
        }
        interim_new_token();
}

#if ALG == 3
/* murmur: every 16-byte unit of the stream exactly once and in order */
static void log_murmur_block(const uint8_t *ptr, uint32_t nunits, uint32_t *md)
{
        n_mblock++;
        VASSERT(md == c->murmur3_x64_128_digest, "C10:murmur-block:works-on-the-murmur-state-of-this-context");
        VASSERT(murmur_is_token(md), "C10,C20:murmur-block:state-is-the-previous-result-(or-the-seed)");
        VASSERT(n_mtail == 0, "C10:murmur-block:no-block-after-the-tail");
        uint64_t nbytes = (uint64_t) nunits * 16;
        uint64_t pos = 0;
        if (IN_CTX(ptr)) {
                VASSERT(ptr >= pb && PDIFF(ptr, pb) + nbytes <= BLK, "C08,C10:murmur-block:context-data-lies-in-the-first-1024-bytes-of-the-partial-buffer");
#if SCEN == 1
                VASSERT(PDIFF(ptr, pb) + nbytes <= pbl, "C10:murmur-block:reads-only-carried-stream-bytes");
                pos = pbs + PDIFF(ptr, pb);
#elif SCEN == 2
                VASSERT(PDIFF(ptr, pb) + nbytes <= fill, "C10:murmur-block:reads-only-carried-stream-bytes");
                pos = (Tfin - fill) + PDIFF(ptr, pb);
                if (ptr >= pb && trk >= PDIFF(ptr, pb) && trk - PDIFF(ptr, pb) < nbytes)
                        VASSERT(PB(trk) == trk_old, "C10:murmur-block:remainder-is-read-before-the-mh_sha1-padding-overwrites-it");
#endif
        } else {
                VASSERT(IN_UBUF(ptr), "C08:murmur-block:data-points-into-the-callers-buffer");
                uint64_t off = PDIFF(ptr, ubase);
                VASSERT(off <= ulen && nbytes <= ulen - off, "C08:murmur-block:data-inside-buffer[0..len)");
                pos = T0 + off;
        }
        VASSERT(pos == Mpos, "C10:murmur-block:16-byte-units-in-stream-order-exactly-once");
        Mpos += nbytes;
#if SCEN == 1
        consume_carried_block();
#endif
        murmur_new_token(md);
}
#endif

#if ALG != 3
#define BLOCK_STUB(fam) void CAT3(_, P, CAT(_block_, fam))(const uint8_t *in, uint32_t digests[NW][ISAL_HASH_SEGS], uint8_t frame[BLK], uint32_t nb) \
        { log_block(in, digests, frame, nb); }
BLOCK_STUB(base) BLOCK_STUB(sse) BLOCK_STUB(avx) BLOCK_STUB(avx2) BLOCK_STUB(avx512)
#else
#define BLOCK_STUB(fam) void CAT(_mh_sha1_block_, fam)(const uint8_t *in, uint32_t digests[NW][ISAL_HASH_SEGS], uint8_t frame[BLK], uint32_t nb) \
        { log_block(in, digests, frame, nb); }
BLOCK_STUB(base) BLOCK_STUB(sse) BLOCK_STUB(avx) BLOCK_STUB(avx2) BLOCK_STUB(avx512)
/* the stitched assembly kernels; _mh_sha1_murmur3_x64_128_block_base is real C (mh_sha1_murmur3_x64_128.c) */
#define STITCHED_STUB(fam) void CAT(_mh_sha1_murmur3_x64_128_block_, fam)(const uint8_t *in, uint32_t digests[NW][ISAL_HASH_SEGS], uint8_t frame[BLK], \
                uint32_t md[ISAL_MURMUR3_x64_128_DIGEST_WORDS], uint32_t nb) \
        { log_block(in, digests, frame, nb); VASSERT(nb <= 0xffffffffu / 64, "C10:stitched-block:unit-count-fits"); log_murmur_block(in, nb * 64, md); }
STITCHED_STUB(sse) STITCHED_STUB(avx) STITCHED_STUB(avx2) STITCHED_STUB(avx512)
void _murmur3_x64_128_block(const uint8_t *in, uint32_t nunits, uint32_t md[ISAL_MURMUR3_x64_128_DIGEST_WORDS])
{
        log_murmur_block(in, nunits, md);
}
void _murmur3_x64_128_tail(const uint8_t *tail, uint32_t total_len, uint32_t md[ISAL_MURMUR3_x64_128_DIGEST_WORDS])
{
        n_mtail++;
#if SCEN == 2
        VASSERT(n_mtail == 1, "C10:murmur-tail:exactly-once");
        VASSERT(md == c->murmur3_x64_128_digest, "C10:murmur-tail:works-on-the-murmur-state-of-this-context");
        VASSERT(murmur_is_token(md), "C10,C20:murmur-tail:state-is-the-result-of-the-last-block-call");
        VASSERT(Mpos == Tfin - (Tfin & 15), "C10:murmur-tail:all-whole-16-byte-units-were-processed-before");
        VASSERT(tail == pb + (fill - (fill & 15)), "C10:murmur-tail:points-at-the-bytes-behind-the-last-whole-unit");
        VASSERT(total_len == (uint32_t) Tfin && (uint64_t) total_len == Tfin, "C10,C15:murmur-tail:receives-the-TOTAL-stream-length");
        if (trk >= fill - (fill & 15) && trk < fill)
                VASSERT(PB(trk) == trk_old, "C10:murmur-tail:remainder-is-read-before-the-mh_sha1-padding-overwrites-it");
        for (int w = 0; w < 4; w++) {
                mfin[w] = ND_U32();
                md[w] = mfin[w];
        }
#else
        VASSERT(0, "C10:murmur-tail:only-finalize-runs-the-tail");
#endif
}
#endif

/* final hash over the 16 x NW segment digests (its own padding loop: cbmc/mh_shafinal_harness.c) */
void FINAL_HASH(const uint8_t *input, uint32_t *digest, const uint32_t len)
{
        n_final++;
#if SCEN == 2
        VASSERT(input == (const uint8_t *) c->INTERIM && len == 4 * NW * 16, "C05,C10:final:hash-runs-over-the-16-segment-digests-of-this-context");
        VASSERT(n_block == (two_blocks ? 2 : 1), "C05,C10:final:every-padding-block-was-hashed-first");
        VASSERT(interim_is_token(), "C05,C10,C20:final:segment-digests-are-the-result-of-the-last-block-call");
        VASSERT(n_final == 1, "C05,C10:final:exactly-once");
        VASSERT(IN_CTX(digest), "C08:final:result-stored-inside-the-context");
        for (int w = 0; w < NW; w++) {
                fin[w] = ND_U32();
                digest[w] = fin[w];
        }
#else
        VASSERT(0, "C05,C10:final:only-finalize-runs-the-final-hash");
#endif
}

#if SCEN == 4
/* the dispatched symbols (multibinary.asm): recorded, never entered */
static int d_calls, d_rc;
static const void *d_a0, *d_a1, *d_a2;
static uint32_t d_len;
int CAT3(_, P, _update)(CTX *ctx, const void *buffer, uint32_t len)
{
        d_calls++; d_a0 = ctx; d_a1 = buffer; d_len = len;
        return d_rc = ND_INT();
}
#if ALG == 3
int CAT3(_, P, _finalize)(CTX *ctx, void *d1, void *d2)
{
        d_calls++; d_a0 = ctx; d_a1 = d1; d_a2 = d2;
        return d_rc = ND_INT();
}
#else
int CAT3(_, P, _finalize)(CTX *ctx, void *d1)
{
        d_calls++; d_a0 = ctx; d_a1 = d1;
        return d_rc = ND_INT();
}
#endif
#endif

/* ------------------------------------------------------------------ the real translation units */
#define slver slver_a
#if ALG == 1 || ALG == 3
#include "mh_sha1/mh_sha1.c"
#undef slver
#define slver slver_b
#include "mh_sha1/mh_sha1_avx512.c"
#undef slver
#define slver slver_c
#include "mh_sha1/mh_sha1_finalize_base.c"
#undef slver
#if ALG == 1
#define slver slver_d
#include "mh_sha1/mh_sha1_update_base.c"
#undef slver
#endif
#endif
#if ALG == 2
#include "mh_sha256/mh_sha256.c"
#undef slver
#define slver slver_b
#include "mh_sha256/mh_sha256_avx512.c"
#undef slver
#define slver slver_c
#include "mh_sha256/mh_sha256_finalize_base.c"
#undef slver
#define slver slver_d
#include "mh_sha256/mh_sha256_update_base.c"
#undef slver
#endif
#if ALG == 3
#define slver slver_e
#include "mh_sha1_murmur3_x64_128/mh_sha1_murmur3_x64_128.c"
#undef slver
#define slver slver_f
#include "mh_sha1_murmur3_x64_128/mh_sha1_murmur3_x64_128_avx512.c"
#undef slver
#define slver slver_g
#include "mh_sha1_murmur3_x64_128/mh_sha1_murmur3_x64_128_update_base.c"
#undef slver
#define slver slver_h
#include "mh_sha1_murmur3_x64_128/mh_sha1_murmur3_x64_128_finalize_base.c"
#undef slver
#endif
#undef memcpy
#undef memset

/* ------------------------------------------------------------------ harness */
static CTX *new_ctx(void)
{
        HAVOC_OBJ(&ctx_store, sizeof(ctx_store));
        return &ctx_store.c;
}

void harness(void)
{
#if SCEN == 1
        /* ---------------- one update call from an arbitrary state satisfying the invariant */
        c = new_ctx();
        pb = c->partial_block_buffer;
        T0 = ND_U64();
        uint32_t len = ND_U32();
#ifdef BEYOND
        VASSUME(T0 <= 0xffffffffffffffffull - len && T0 + len >= (1ull << 32)); /* observation run: outside the property's domain */
#else
        VASSUME(T0 + len < (1ull << 32) && T0 < (1ull << 32)); /* the property's domain: streams shorter than 2^32 bytes */
#endif
        c->total_length = T0;
        interim_new_token();
        pbl = (uint32_t) (T0 % BLK); /* invariant: the partial buffer carries the last T0 mod 1024 stream bytes */
        pbs = T0 - pbl;
        H = pbs;
#if ALG == 3
        murmur_new_token(c->murmur3_x64_128_digest);
        Mpos = H; /* invariant: murmur has consumed exactly the whole 1024-byte blocks */
#endif
        unsigned off = ND_U8() & 63; /* arbitrary alignment of the caller's buffer */
        ulen = len;
        ubase = (const uint8_t *) verif_obj((size_t) len + off) + off; /* exactly len bytes; the glue never dereferences it */
        uint32_t dig_before[NW];
        for (int w = 0; w < NW; w++)
                dig_before[w] = c->DIGEST[w];
        int null_ctx = ND_U8() & 1;
        if (null_ctx) {
                int rc0 = FN_UPDATE(0, ubase, len);
                VASSERT(rc0 == -1, "C05,C10,C16:update:NULL-context-returns-CTX_ERROR_NULL");
                VASSERT(n_block == 0 && n_copy == 0 && n_clear == 0 && n_final == 0 && n_mblock == 0 && c->total_length == T0, "C05,C10,C16:update:NULL-context-has-no-side-effect");
                return;
        }
        int rc = FN_UPDATE(c, ubase, len);
        uint64_t T1 = T0 + len;
        VASSERT(rc == 0, "C05,C10:update:returns-CTX_ERROR_NONE");
        VASSERT(c->total_length == T1, "C05,C10,C15:update:total_length-is-the-sum-of-the-segment-lengths");
        VASSERT((H % BLK) == 0 && H + pbl == T1, "C05,C10:update:hashed-blocks-plus-carried-bytes-cover-the-stream");
        VASSERT(pbl == (uint32_t) (T1 % BLK), "C05,C10:update:invariant-carried-length-is-total-mod-1024");
        VASSERT(pbl == 0 || pbs == H, "C05,C10:update:invariant-carried-bytes-are-the-stream-tail-in-order");
        VASSERT(interim_is_token(), "C05,C10,C20:update:segment-digests-only-changed-by-the-block-function");
        VASSERT(n_block <= 2 && n_final == 0, "C05,C10:update:at-most-one-carried-block-call-and-one-bulk-call");
        for (int w = 0; w < NW; w++)
                VASSERT(c->DIGEST[w] == dig_before[w], "C05,C10:update:result-digest-field-untouched");
        if (len == 0)
                VASSERT(n_block == 0 && n_copy == 0 && n_clear == 0, "C05,C10:update:empty-segment-changes-nothing");
#if ALG == 3
        VASSERT(Mpos == H, "C10:update:murmur-and-mh_sha1-have-consumed-the-same-whole-blocks");
        VASSERT(murmur_is_token(c->murmur3_x64_128_digest), "C10,C20:update:murmur-state-only-changed-by-the-block-function");
        VASSERT(n_mtail == 0, "C10:update:no-murmur-tail-before-finalize");
#endif
#elif SCEN == 2
        /* ---------------- finalize from an arbitrary state satisfying the invariant */
        c = new_ctx();
        pb = c->partial_block_buffer;
        Tfin = ND_U64();
#ifdef BEYOND
        VASSUME(Tfin >= (1ull << 32) && Tfin < (1ull << 61));
#else
        VASSUME(Tfin < (1ull << 32));
#endif
        c->total_length = Tfin;
        fill = (uint32_t) (Tfin % BLK);
        two_blocks = fill + 1 > BLK - 8;
        interim_new_token();
        trk = ND_U32() % BLK;
        trk_old = PB(trk); /* arbitrary (CBMC) / 0xA5 (native replay: neither 0 nor 0x80 nor a plausible length byte) */
#if ALG == 3
        murmur_new_token(c->murmur3_x64_128_digest);
        Mpos = Tfin - fill;
        uint32_t *mout = verif_obj(16); /* exactly 16 bytes */
#endif
        uint32_t *out = verif_obj(4 * NW); /* exactly the digest size: writing more is a pointer-check failure */
        int null_ctx = ND_U8() & 1, null_out = ND_U8() & 1;
        if (null_ctx) {
#if ALG == 3
                int rc0 = FN_FINAL(0, out, mout);
#else
                int rc0 = FN_FINAL(0, out);
#endif
                VASSERT(rc0 == -1, "C05,C10,C16:finalize:NULL-context-returns-CTX_ERROR_NULL");
                VASSERT(n_block == 0 && n_final == 0 && n_clear == 0 && n_copy == 0 && n_mblock == 0 && n_mtail == 0 && PB(trk) == trk_old, "C05,C10,C16:finalize:NULL-context-has-no-side-effect");
                return;
        }
#if ALG == 3
        int null_mout = ND_U8() & 1;
        int rc = FN_FINAL(c, null_out ? 0 : out, null_mout ? 0 : mout);
#else
        int rc = FN_FINAL(c, null_out ? 0 : out);
#endif
        VASSERT(rc == 0, "C05,C10:finalize:returns-CTX_ERROR_NONE");
        VASSERT(n_block == (two_blocks ? 2 : 1), "C05,C10:finalize:one-padding-block-or-two-when-fewer-than-8-bytes-remain");
        VASSERT(n_final == 1, "C05,C10:finalize:final-hash-over-the-segment-digests-called-once");
        VASSERT(c->total_length == Tfin, "C05,C10:finalize:total_length-untouched");
        for (int w = 0; w < NW; w++) {
                VASSERT(c->DIGEST[w] == fin[w], "C05,C10:finalize:context-digest-is-the-result-of-the-final-hash");
                if (!null_out)
                        VASSERT(out[w] == fin[w], "C05,C10:finalize:callers-digest-buffer-receives-the-result-of-the-final-hash");
        }
#if ALG == 3
        VASSERT(n_mtail == 1, "C10:finalize:murmur-tail-called-once");
        VASSERT(Mpos + (Tfin & 15) == Tfin, "C10:finalize:every-16-byte-unit-went-through-the-murmur-block-function");
        for (int w = 0; w < 4; w++) {
                VASSERT(c->murmur3_x64_128_digest[w] == mfin[w], "C10:finalize:context-murmur-value-is-the-result-of-the-tail");
                if (!null_mout)
                        VASSERT(mout[w] == mfin[w], "C10:finalize:callers-murmur-buffer-receives-the-result-of-the-tail");
        }
#endif
#elif SCEN == 3
        /* ---------------- init: establishes the invariant (empty stream, standard IVs, seed in both murmur words) */
        c = new_ctx();
        pb = c->partial_block_buffer;
        unsigned seg = ND_U8() % 16, wd = ND_U8() % NW;
#if ALG == 3
        uint64_t seed = ND_U64();
        int rc = FN_INIT(c, seed);
        int rcn = FN_INIT(0, seed);
        VASSERT(((uint64_t *) c->murmur3_x64_128_digest)[0] == seed && ((uint64_t *) c->murmur3_x64_128_digest)[1] == seed, "C10:init:seed-initialises-both-murmur-state-words");
#else
        int rc = FN_INIT(c);
        int rcn = FN_INIT(0);
#endif
        VASSERT(rc == 0 && rcn == -1, "C05,C10,C16:init:return-codes");
        VASSERT(c->total_length == 0, "C05,C10:init:empty-stream");
        VASSERT(((uint32_t(*)[16]) c->INTERIM)[wd][seg] == std_iv[wd], "C05,C10:init:every-segment-starts-from-the-standard-initial-value");
#elif SCEN == 4
        /* ---------------- public wrappers: documented codes for NULL arguments, nothing touched, otherwise plain forwarding */
        CTX *ctx = verif_poison_obj(sizeof(CTX)); /* any access to the context by a wrapper is a pointer-check failure */
        uint8_t *buf = verif_poison_obj(16), *dg = verif_poison_obj(4 * NW), *mdg = verif_poison_obj(16);
        uint32_t len = ND_U32();
        unsigned sel = ND_U8() % 5;
        int nc = ND_U8() & 1, nb = ND_U8() & 1, nd = ND_U8() & 1, nm = ND_U8() & 1;
        CTX *actx = nc ? 0 : ctx;
        void *abuf = nb ? 0 : buf, *adg = nd ? 0 : dg, *amdg = nm ? 0 : mdg;
        int rc;
        if (sel == 0) {
                rc = CAT3(isal_, P, _update)(actx, abuf, len);
                if (nc)
                        VASSERT(rc == 2002 && d_calls == 0, "C05,C10,C16:isal_update:NULL-ctx-gives-ISAL_CRYPTO_ERR_NULL_CTX-and-nothing-is-called");
                else if (nb)
                        VASSERT(rc == 2000 && d_calls == 0, "C05,C10,C16:isal_update:NULL-buffer-gives-ISAL_CRYPTO_ERR_NULL_SRC-and-nothing-is-called");
                else
                        VASSERT(d_calls == 1 && rc == d_rc && d_a0 == ctx && d_a1 == buf && d_len == len, "C05,C10,C16:isal_update:forwards-arguments-and-result");
        } else if (sel == 1) {
#if ALG == 3
                rc = CAT3(isal_, P, _finalize)(actx, adg, amdg);
                int bad = nd || nm;
#else
                rc = CAT3(isal_, P, _finalize)(actx, adg);
                int bad = nd;
#endif
                if (nc)
                        VASSERT(rc == 2002 && d_calls == 0, "C05,C10,C16:isal_finalize:NULL-ctx-gives-ISAL_CRYPTO_ERR_NULL_CTX-and-nothing-is-called");
                else if (bad)
                        VASSERT(rc == 2007 && d_calls == 0, "C05,C10,C16:isal_finalize:NULL-digest-gives-ISAL_CRYPTO_ERR_NULL_AUTH-and-nothing-is-called");
                else
                        VASSERT(d_calls == 1 && rc == d_rc && d_a0 == ctx && d_a1 == dg, "C05,C10,C16:isal_finalize:forwards-arguments-and-result");
        } else if (sel == 2) {
                rc = CAT(P, _update)(actx, abuf, len);
                VASSERT(d_calls == 1 && rc == d_rc && d_a0 == actx && d_a1 == abuf && d_len == len, "C05,C10,C16:legacy-update:forwards-arguments-and-result");
        } else if (sel == 3) {
#if ALG == 3
                rc = CAT(P, _finalize)(actx, adg, amdg);
                VASSERT(d_a2 == amdg, "C10,C16:legacy-finalize:forwards-the-murmur-buffer");
#else
                rc = CAT(P, _finalize)(actx, adg);
#endif
                VASSERT(d_calls == 1 && rc == d_rc && d_a0 == actx && d_a1 == adg, "C05,C10,C16:legacy-finalize:forwards-arguments-and-result");
        } else {
#if ALG == 3
                rc = CAT3(isal_, P, _init)(0, ND_U64());
#else
                rc = CAT3(isal_, P, _init)(0);
#endif
                VASSERT(rc == 2002, "C05,C10,C16:isal_init:NULL-ctx-gives-ISAL_CRYPTO_ERR_NULL_CTX");
        }
#endif
        WITNESS_END();
}
