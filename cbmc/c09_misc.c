/* C09 side harnesses: reset establishes the invariant; init builds table2 = rol(table1, w) from the constant
 * table; mask_gen equals its definition; the constant table is pinned. */
#include "verif.h"
#include "rolling_hash/rolling_hash2.c"
#define slver slver_hashx
#include "rolling_hash/rolling_hashx_base.c"
#undef slver
#include "c09_table_pin.h"
uint64_t _rolling_hash2_run_until(uint32_t *idx, int max_idx, uint64_t *t1, uint64_t *t2, uint8_t *b1, uint8_t *b2, uint64_t h, uint64_t mask, uint64_t trigger) { return 0; }
static uint64_t rol64(uint64_t x, unsigned r) { r &= 63; return r ? (x << r) | (x >> (64 - r)) : x; }
static struct isal_rh_state2 st;

void harness(void)
{
#if PART == 1   /* table pin + init for window W */
        unsigned b = ND_U8();
        VASSERT(rolling_hash2_table1[b] == c09_pinned_table[b], "C09:table:constant-table-equals-the-pinned-copy");
        uint32_t w = W;
        int rc = _rolling_hash2_init(&st, w);
        VASSERT(rc == 0 && st.w == w, "C09:init:accepts-window-1..48");
        VASSERT(st.table1[b] == c09_pinned_table[b] && st.table2[b] == rol64(c09_pinned_table[b], w), "C09:init:tables-are-the-constant-table-and-its-rotation");
#elif PART == 2 /* reset */
        uint8_t init[48];
        for (unsigned k = 0; k < W; k++) { init[k] = ND_U8(); st.table1[init[k]] = ND_U64(); }
        st.w = W;
        _rolling_hash2_reset(&st, init);
        uint64_t h = 0;
        for (unsigned j = 0; j < W; j++) h ^= rol64(st.table1[init[j]], W - 1 - j);
        VASSERT(st.hash == h, "C09:reset:hash-is-the-hash-of-the-w-initial-bytes");
        unsigned j = ND_U8() % W;
        VASSERT(st.history[j] == init[j], "C09:reset:history-holds-the-w-initial-bytes");
#elif PART == 3 /* mask_gen: rol32(floor_pow2(max(mean,2)) - 1, shift) */
        uint32_t mean = ND_U32(), shift = ND_U32();
        VASSUME(shift >= 1 && shift <= 31);
        VASSUME(mean < (1u << 31));           /* mean >= 2^31: floor_pow2() returns int, `- 1` then overflows a signed int (UB; wraps on x86) */   /* shift 0 / >= 32 is an undefined C shift in rol(): reported separately */
        uint32_t m = mean < 2 ? 2 : mean, p = 1;
        for (int k = 0; k < 32; k++) if ((p << 1) != 0 && (p << 1) <= m) p <<= 1;
        uint32_t e = p - 1;
        e = (e << shift) | (e >> (32 - shift));
        VASSERT(_rolling_hashx_mask_gen((long) mean, (int) shift) == e, "C09:mask_gen:equals-rol32(floor_pow2(max(mean,2))-1,shift)");
#endif
        WITNESS_END();
}
