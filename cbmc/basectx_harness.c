/* One inductive step of the portable ("base") single-buffer context family: the real <alg>_mb/<alg>_ctx_base.c
 * is #included; its static compression function <alg>_single is replaced (goto-instrument --replace-calls, or a
 * renamed copy for the native replay) by the logger stub_single below, so the step is decided as a statement
 * about the BLOCK STREAM handed to the compression function:
 *   - the blocks are exactly the next unhashed BS-byte units of (carried bytes ++ caller bytes), in order,
 *   - after LAST: followed by the standard padding of the exact 64-bit total (0x80, zeros, PADF-byte length field
 *     holding total*8 in the algorithm's byte order),
 *   - each call chains on the previous call's result, the first one after FIRST on the standard IV,
 *   - total_length / partial length / partial bytes / status after the step satisfy the invariant again,
 *   - a rejected call changes nothing but the error field and reaches no compression call.
 * Pre-state: arbitrary 64-bit total below 2^60 (partial length = total mod BS), arbitrary carried bytes, arbitrary
 * 32-bit flags and status; len <= MAXLEN (4*BS+7: 0..5 blocks completed per call) is the stated bound.
 * The caller's data bytes are not modelled (1-byte object, address arithmetic only): provenance instead of contents. */
#include "verif.h"
#include <assert.h>
#include HDR
#include "memcpy_inline.h"

#define CAT_(a, b) a##b
#define CAT(a, b) CAT_(a, b)
#define CAT3(a, b, c) CAT(CAT(a, b), c)
#define CTX CAT3(ISAL_, ALG, _HASH_CTX)
#define CMGR CAT3(ISAL_, ALG, _HASH_CTX_MGR)

#define IV_SHA1 { 0x67452301u, 0xefcdab89u, 0x98badcfeu, 0x10325476u, 0xc3d2e1f0u }
#define IV_SHA256 { 0x6a09e667u, 0xbb67ae85u, 0x3c6ef372u, 0xa54ff53au, 0x510e527fu, 0x9b05688cu, 0x1f83d9abu, 0x5be0cd19u }
#define IV_SHA512 { 0x6a09e667f3bcc908ull, 0xbb67ae8584caa73bull, 0x3c6ef372fe94f82bull, 0xa54ff53a5f1d36f1ull, \
                    0x510e527fade682d1ull, 0x9b05688c2b3e6c1full, 0x1f83d9abfb41bd6bull, 0x5be0cd19137e2179ull }
#define IV_MD5 { 0x67452301u, 0xefcdab89u, 0x98badcfeu, 0x10325476u }
#define IV_SM3 { 0x7380166fu, 0x4914b2b9u, 0x172442d7u, 0xda8a0600u, 0xa96f30bcu, 0x163138aau, 0xe38dee4du, 0xb0fb0e4eu }
static const WORD std_iv[NWORDS] = CAT(IV_, ALG);

#ifndef SM3SWAP
#define SM3SWAP 0
#endif
#ifndef MAXLEN
#define MAXLEN (4 * BS + 7)
#endif
#ifndef DATAQ
#define DATAQ
#endif
#ifdef REPLAY
#define SAME_OBJ(p, base, n) ((const char *) (p) >= (const char *) (base) && (const char *) (p) <= (const char *) (base) + (n))
#else
#define SAME_OBJ(p, base, n) __CPROVER_same_object((p), (base))
#endif

/* ghost: stream provenance (no byte contents for the caller's data: the caller's buffer is used for address arithmetic only) */
static CTX *the_ctx;
static const uint8_t *ubase;
static uint32_t ulen;
static uint64_t g_hashed;      /* stream bytes handed to the compression function so far (this message) */
static uint32_t g_pb_len;      /* the partial buffer holds stream bytes [g_hashed, g_hashed + g_pb_len) */
static uint64_t g_upos_base;   /* stream position of caller byte 0 */
static int g_first, g_calls, g_padcalls;
static WORD d0[NWORDS];
static uint32_t g_k;
static uint8_t g_got;
static int g_got_set;

#define TOKEN(k, i) ((WORD) (0xC0DE0000u + 64u * (unsigned) (k) + (unsigned) (i)))

void stub_copy(void *dst, const void *src, size_t n)
{
        if (SAME_OBJ(dst, the_ctx, sizeof(CTX))) {
                size_t doff = (size_t) ((uint8_t *) dst - the_ctx->partial_block_buffer);
                VASSERT(doff <= BS && n <= BS - doff, "C08:base: copy leaves the partial block buffer");
                VASSERT(SAME_OBJ(src, ubase, ulen), "C08,C01:base: carried bytes are not copied from the caller's buffer");
                size_t soff = (size_t) ((uintptr_t) src - (uintptr_t) ubase);
                VASSERT(soff <= ulen && n <= ulen - soff, "C08:base: copy reads outside buffer[0..len)");
                VASSERT(doff == g_pb_len, "C01:base: bytes are not appended at the fill level of the partial buffer");
                VASSERT(g_upos_base + soff == g_hashed + g_pb_len, "C01,C15:base: carried bytes are not the next unhashed stream bytes");
                g_pb_len += (uint32_t) n;
        } else {
                /* the finalisation's private padding buffer: a real byte copy (source must be the partial buffer) */
                VASSERT(SAME_OBJ(src, the_ctx, sizeof(CTX)) && (const uint8_t *) src == the_ctx->partial_block_buffer, "C01:base: padding is not built from the carried bytes");
                VASSERT(n <= BS, "C08:base: more than a block copied into the padding buffer");
                (memcpy)(dst, src, n);
        }
}
#undef memcpy_varlen
#define memcpy_varlen(d, s, n) stub_copy((d), (s), (n))
#undef memcpy_fixedlen
#define memcpy_fixedlen(d, s, n) (__builtin_constant_p(n) ? (void) memcpy((d), (s), (n)) : stub_copy((d), (s), (n)))
#define memcpy(d, s, n) (__builtin_constant_p(n) ? (void) (memcpy)((d), (s), (n)) : stub_copy((d), (s), (n)))

void stub_single(const DATAQ void *data, WORD digest[])
{
        VASSERT(digest == the_ctx->job.result_digest, "C01:base: compression call does not chain on the context's digest");
        for (int i = 0; i < NWORDS; i++) {
                WORD want = g_calls > 0 ? TOKEN(g_calls - 1, i) : (g_first ? std_iv[i] : d0[i]);
                VASSERT(digest[i] == want, "C01,C20:base: chaining value is not the previous result / the standard IV");
        }
        if (SAME_OBJ((const void *) data, the_ctx, sizeof(CTX))) {
                VASSERT((const uint8_t *) data == the_ctx->partial_block_buffer, "C01:base: block inside the context is not the partial buffer");
                VASSERT(g_pb_len == BS, "C01,C15:base: partial buffer hashed while it does not hold exactly one block");
                VASSERT(g_padcalls == 0, "C01:base: data block after padding");
                g_hashed += BS;
                g_pb_len = 0;
        } else if (SAME_OBJ((const void *) data, ubase, ulen)) {
                size_t off = (size_t) ((uintptr_t) data - (uintptr_t) ubase);
                VASSERT(off <= ulen && BS <= ulen - off, "C08:base: block read outside buffer[0..len)");
                VASSERT(g_pb_len == 0, "C01:base: caller block hashed while carried bytes are pending");
                VASSERT(g_upos_base + off == g_hashed, "C01,C15:base: caller block is not the next unhashed stream block");
                VASSERT(g_padcalls == 0, "C01:base: data block after padding");
                g_hashed += BS;
        } else {
                VASSERT(g_padcalls < 2, "C01,C15:base: more than two padding blocks");
                if ((uint32_t) g_padcalls == g_k / BS) {   /* the one padding byte under test (position g_k is arbitrary) */
                        g_got = ((const DATAQ uint8_t *) data)[g_k % BS];
                        g_got_set = 1;
                }
                g_padcalls++;
        }
        for (int i = 0; i < NWORDS; i++)
                digest[i] = TOKEN(g_calls, i);
        g_calls++;
}

#include CTXFILE

void harness(void)
{
        static CTX c;
        static CMGR mgr;
        static uint8_t pb0[BS];
        the_ctx = &c;
        uint64_t T = ND_U64();
        VASSUME(T < (1ull << 60));
#ifdef MIN_TOTAL
        VASSUME(T >= MIN_TOTAL);
#endif
        uint32_t p = (uint32_t) (T % BS);
        uint32_t len = ND_U32();
        VASSUME(len <= MAXLEN);
        uint32_t flags = ND_U32();
        uint32_t status = ND_U32();
        int32_t err0 = (int32_t) ND_U32();
        for (int i = 0; i < BS; i++)
                pb0[i] = ND_U8();
        for (int i = 0; i < NWORDS; i++)
                d0[i] = (WORD) ND_U64();
        int fresh = ND_U8() & 1;        /* context only initialised by isal_hash_ctx_init: every field but status arbitrary */
        uint64_t junk_total = ND_U64();
        uint32_t junk_p = ND_U32();
        uint32_t k_draw = ND_U32();
        VASSUME(k_draw < 2 * BS);
        g_k = k_draw;
        uint8_t *user = (uint8_t *) verif_obj(1) ;   /* address arithmetic only: never dereferenced by the stubs */
        ubase = user;
        ulen = len;

        int has_first = (flags & ISAL_HASH_FIRST) != 0, has_last = (flags & ISAL_HASH_LAST) != 0;
        int bad_flags = (flags & ~(uint32_t) ISAL_HASH_ENTIRE) != 0;
#ifdef NO_LAST
        VASSUME(bad_flags || !has_last);      /* finalisation decided by the LAST_LEN0 variant of this harness */
#endif
#ifdef LAST_LEN0
        VASSUME(!bad_flags && has_last && len == 0);
#endif
        if (fresh) {
                /* after isal_hash_ctx_init(): status COMPLETE, everything else never written */
                VASSUME(status == ISAL_HASH_CTX_STS_COMPLETE);
                c.total_length = junk_total;
                c.partial_block_buffer_length = junk_p;
        } else {
                /* states the base family leaves behind: IDLE or COMPLETE */
                VASSUME(status == ISAL_HASH_CTX_STS_IDLE || status == ISAL_HASH_CTX_STS_COMPLETE);
                c.total_length = T;
                c.partial_block_buffer_length = p;
        }
        c.status = (ISAL_HASH_CTX_STS) status;
        c.error = (ISAL_HASH_CTX_ERROR) err0;
        for (int i = 0; i < BS; i++)
                c.partial_block_buffer[i] = pb0[i];
        for (int i = 0; i < NWORDS; i++)
                c.job.result_digest[i] = d0[i];
        uint64_t pre_total = c.total_length;
        uint32_t pre_p = c.partial_block_buffer_length;
        g_first = has_first;

        /* expected acceptance, from the documented rules */
        int rej_processing = (status & ISAL_HASH_CTX_STS_PROCESSING) && flags == ISAL_HASH_ENTIRE;
        int rej_complete = (status & ISAL_HASH_CTX_STS_COMPLETE) && !has_first;
        int accepted = !bad_flags && !rej_processing && !rej_complete;

        uint64_t T0 = has_first ? 0 : T;
        uint32_t p0 = has_first ? 0 : p;
        g_hashed = T0 - p0;
        g_pb_len = p0;
        g_upos_base = T0;

        CTX *r = FN_SUBMIT(&mgr, &c, user, len, (ISAL_HASH_CTX_FLAG) flags);
        VASSERT(r == &c, "C06:base: submit does not hand the context back");
        if (!accepted) {
                VASSERT(g_calls == 0, "C11:base: rejected submit reached the compression function");
                VASSERT(c.total_length == pre_total && c.partial_block_buffer_length == pre_p && (uint32_t) c.status == status, "C11:base: rejected submit changed the context");
                VASSERT(c.error == (bad_flags ? ISAL_HASH_CTX_ERROR_INVALID_FLAGS : rej_processing ? ISAL_HASH_CTX_ERROR_ALREADY_PROCESSING : ISAL_HASH_CTX_ERROR_ALREADY_COMPLETED),
                        "C11:base: rejected submit reports the wrong error");
                for (int i = 0; i < NWORDS; i++)
                        VASSERT(c.job.result_digest[i] == d0[i], "C11:base: rejected submit changed the digest");
                WITNESS_END();
                return;
        }
        uint64_t T1 = T0 + len;
        uint32_t p1 = (p0 + len) % BS;
        VASSERT(c.total_length == T1, "C15,C01:base: total_length is not the previous total plus len");
        VASSERT(g_hashed + g_pb_len == T1, "C01,C15:base: some stream bytes were neither hashed nor carried");
        VASSERT(g_pb_len == p1 && g_hashed == T1 - p1, "C01,C15:base: a complete block was left unhashed");
        if (!has_last) {
                VASSERT(c.partial_block_buffer_length == p1, "C15,C01:base: carried length is not total mod block size");
                VASSERT(c.status == ISAL_HASH_CTX_STS_IDLE, "C06:base: status after a non-final submit is not IDLE");
                VASSERT(g_padcalls == 0, "C01:base: padding hashed before LAST");
        } else {
                VASSERT(c.status == ISAL_HASH_CTX_STS_COMPLETE, "C06:base: status after LAST is not COMPLETE");
        }
        if (has_first)
                VASSERT(c.error == ISAL_HASH_CTX_ERROR_NONE, "C11:base: error not cleared by FIRST");
        if (has_last) {
                uint32_t npad = (p1 + 1 + PADF > BS) ? 2 : 1;
                VASSERT((uint32_t) g_padcalls == npad, "C01,C15:base: number of padding blocks differs from the standard padding");
                uint64_t bits = T1 * 8;
                /* one arbitrary byte position of the padding (all positions are covered by the quantification over k) */
                uint32_t i = k_draw;
                if (i < npad * BS) {
                        VASSERT(g_got_set, "C01,C15:base: padding block missing");
                        uint8_t got = g_got, want;
                        if (i < p1)
                                want = c.partial_block_buffer[i];   /* the carried bytes (provenance: stream [T1-p1, T1)) */
                        else if (i == p1)
                                want = 0x80;
                        else if (i < npad * BS - 8)
                                want = 0;          /* includes the upper 8 bytes of a 16-byte length field: total < 2^61 */
                        else {
                                uint32_t b = i - (npad * BS - 8);      /* byte index inside the low 64-bit field */
                                want = LEN_LE ? (uint8_t) (bits >> (8 * b)) : (uint8_t) (bits >> (8 * (7 - b)));
                        }
                        VASSERT(got == want, "C15,C01,C20:base: padding block differs from the standard padding of the exact total");
                }
        }
        for (int i = 0; i < NWORDS; i++) {
                WORD want = g_calls > 0 ? TOKEN(g_calls - 1, i) : (has_first ? std_iv[i] : d0[i]);
#if SM3SWAP
                /* SM3 hands its result back with the bytes of every word swapped (as the multi-buffer SM3 context layer does) */
                if (has_last)
                        want = (WORD) (((uint32_t) want >> 24) | (((uint32_t) want >> 8) & 0xff00u) | (((uint32_t) want << 8) & 0xff0000u) | ((uint32_t) want << 24));
#endif
                VASSERT(c.job.result_digest[i] == want, "C01,C20:base: digest left in the context is not the last compression result");
        }
        WITNESS_END();
}
