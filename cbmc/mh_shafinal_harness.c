/* C05/C10 (second stage): the final hash over the segment digests, _sha1_for_mh_sha1 / sha256_for_mh_sha256, i.e. its
 * own block loop and SHA padding, with the single-block compression function replaced by a logging stub.
 *
 * SHAFILE is a copy of the real mh_sha1/sha1_for_mh_sha1.c (mh_sha256/sha256_for_mh_sha256.c) of the tree under test in
 * which lib/mhglue.py renamed exactly one line - the *definition* of the single-block function - to `real_single_block`,
 * so that the calls inside the function under test reach the stub below (the compression function itself is the kernel
 * part of C05: asmsym).  -DALG 1|2, -DLENMODE 1 (len = the value the glue passes: 4*NW*16) | 3 (len = LEN, a concrete
 * value: the padding boundaries 0, 55, 56, 63, 64, 119, 120 ...) | 2 (arbitrary len <= MAXLEN: minutes, not used by default).
 *
 * Asserted: the compression function sees the message blocks in order straight from the input, then the padding
 * block(s): remaining bytes, 0x80, zeros, 64-bit big-endian bit length in the last 8 bytes of the (possibly second)
 * 64-byte block; the chaining starts from the standard initial value and runs through every call; the input is only
 * read inside [input, input+len) (exact-size object). */
#include "verif.h"
#include <string.h>
#if ALG == 1
#include "mh_sha1_internal.h"
#define NW 5
#define SINGLE _sha1_single_for_mh_sha1
#define FINAL_HASH _sha1_for_mh_sha1
static const uint32_t std_iv[5] = { 0x67452301u, 0xefcdab89u, 0x98badcfeu, 0x10325476u, 0xc3d2e1f0u };
#else
#include "mh_sha256_internal.h"
#define NW 8
#define SINGLE sha256_single_for_mh_sha256
#define FINAL_HASH sha256_for_mh_sha256
static const uint32_t std_iv[8] = { 0x6a09e667u, 0xbb67ae85u, 0x3c6ef372u, 0xa54ff53au, 0x510e527fu, 0x9b05688cu, 0x1f83d9abu, 0x5be0cd19u };
#endif
#ifndef MAXLEN
#define MAXLEN 200
#endif

static const uint8_t *g_in;
static uint32_t g_len, g_calls, tok;
static unsigned g_k; /* tracked byte position inside a 64-byte block */
static uint32_t *g_dig;

static uint8_t pad_byte(uint32_t p) /* byte p of the padded tail (tail = the last len mod 64 message bytes) */
{
        uint32_t rem = g_len % 64, padlen = (rem + 1 > 56) ? 128 : 64;
        if (p < rem)
                return g_in[(g_len - rem) + p];
        if (p == rem)
                return 0x80;
        if (p < padlen - 8)
                return 0;
        return (uint8_t) (((uint64_t) g_len * 8) >> (8 * (padlen - 1 - p)));
}

void SINGLE(const uint8_t *data, uint32_t digest[])
{
        uint32_t nfull = g_len / 64, rem = g_len % 64, npad = (rem + 1 > 56) ? 2 : 1;
        VASSERT(digest == g_dig, "C05,C10:sha-final:compression-works-on-the-callers-digest");
        if (g_calls == 0) {
                for (int i = 0; i < NW; i++)
                        VASSERT(digest[i] == std_iv[i], "C05,C10:sha-final:chaining-starts-from-the-standard-initial-value");
        } else {
                for (int i = 0; i < NW; i++)
                        VASSERT(digest[i] == tok + (uint32_t) i, "C05,C10,C20:sha-final:chaining-value-is-the-previous-result");
        }
        VASSERT(g_calls < nfull + npad, "C05,C10:sha-final:number-of-compression-calls");
        if (g_calls < nfull)
                VASSERT(data == g_in + 64 * g_calls, "C05,C10,C08:sha-final:message-blocks-in-order-straight-from-the-input");
        else
                VASSERT(data[g_k] == pad_byte(64 * (g_calls - nfull) + g_k), "C05,C10:sha-final:padding-block-is-remainder-0x80-zeros-and-64-bit-big-endian-bit-length");
        g_calls++;
        tok = ND_U32();
        for (int i = 0; i < NW; i++)
                digest[i] = tok + (uint32_t) i;
}

#include SHAFILE

void harness(void)
{
#if LENMODE == 1
        g_len = 4 * NW * 16;
#elif LENMODE == 3
        g_len = LEN;
#else
        g_len = ND_U32();
        VASSUME(g_len <= MAXLEN);
#endif
        g_k = ND_U8() % 64;
        uint8_t *in = verif_obj(g_len); /* exactly len bytes */
        g_in = in;
        uint32_t *dig = verif_obj(4 * NW);
        g_dig = dig;
        FINAL_HASH(in, dig, g_len);
        uint32_t rem = g_len % 64;
        VASSERT(g_calls == g_len / 64 + ((rem + 1 > 56) ? 2 : 1), "C05,C10:sha-final:every-message-and-padding-block-compressed");
        for (int i = 0; i < NW; i++)
                VASSERT(dig[i] == tok + (uint32_t) i, "C05,C10:sha-final:result-is-the-last-chaining-value");
        WITNESS_END();
}
