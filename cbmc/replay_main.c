/* native replay driver: argv = the nondeterministic draws of the CBMC counterexample, in order */
#include <stdio.h>
#include <stdlib.h>
#include <stdint.h>
void replay_set(uint64_t *v, int n);
void HARNESS_FN(void);
int main(int argc, char **argv) {
        static uint64_t v[4096];
        int n = 0;
        for (int i = 1; i < argc && n < 4096; i++) v[n++] = strtoull(argv[i], 0, 0);
        replay_set(v, n);
        HARNESS_FN();
        printf("REPLAY-COMPLETED-WITHOUT-FAILURE\n");
        return 0;
}
