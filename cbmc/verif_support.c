#include "verif.h"
uint64_t nd_log[ND_MAX];
int nd_n;
uint64_t nd_cur;
#ifdef REPLAY
#include <sys/mman.h>
static uint64_t *rp_vals; static int rp_cnt, rp_pos;
void replay_set(uint64_t *v, int n) { rp_vals = v; rp_cnt = n; rp_pos = 0; }
uint64_t replay_next(void) { return rp_pos < rp_cnt ? rp_vals[rp_pos++] : 0; }
void *verif_poison_ptr(void) {
        void *p = mmap(0, 1 << 24, PROT_NONE, MAP_PRIVATE | MAP_ANONYMOUS | MAP_NORESERVE, -1, 0);
        return p;
}
void *verif_poison_obj(size_t n) { return mmap(0, (n + 4095) & ~4095ul, PROT_NONE, MAP_PRIVATE | MAP_ANONYMOUS, -1, 0); }
void *verif_obj(size_t n) { if (n > (1u << 20)) return mmap(0, n, PROT_READ | PROT_WRITE, MAP_PRIVATE | MAP_ANONYMOUS | MAP_NORESERVE, -1, 0);
  unsigned char *p = malloc(n ? n : 1); for (size_t i = 0; i < n; i++) p[i] = (unsigned char) (0xA5 ^ i); return p; }
#else
void *verif_poison_ptr(void) { char *p = malloc(1); __CPROVER_assume(p != 0); free(p); return p; }
void *verif_poison_obj(size_t n) { char *p = malloc(n); __CPROVER_assume(p != 0); free(p); return p; }
void *verif_obj(size_t n) { char *p = malloc(n); __CPROVER_assume(p != 0); return p; }
#endif
